#!/usr/bin/env python3
"""T1b: regenerate Gallina models of small pure C functions from /repo's current source.

    python3 tools/c2gallina.py [--out DIR] [--only GenMrb,GenCore]      (env JLS_REPO)

Input : the clang JSON AST of the real source file (macros already expanded).
Output: coq/Gen<Name>.v, one per C file (see FILES), rewritten only when the content
        changes.  The meaning of the emitted helper names is fixed in coq/GenLib.v.

SUPPORTED SUBSET.  Anything else raises Unsupported (exit status 3, message names the
construct): nothing approximate is ever emitted.
  types        integer types (unsigned -> N with explicit u8/u16/u32/u64 wrap, signed -> Z
               with `sint` overflow faults), `uint8_t *` = pointer into the one byte array of
               the function (`ptr`), `struct T *` parameter = record value in/out,
               `const struct T *` = record value, `uintN_t *` parameter (not uint8_t) = scalar
               in/out, `const intN_t *` parameter (N > 8) = read-only array (list, bounds
               checked), static const struct / const integer array globals.  Struct fields of
               other types (double, arrays, nested structs) are left out of the record; using
               one is Unsupported.
  fragments    a run of consecutive statements of one block of a function (FILES: a tuple),
               translated as a function of the variables it uses; for functions that are
               mostly I/O or floating point around a small integer core.
  expressions  literals, enum constants, + - * / % & | ^ ~ << >> comparisons && || ! ?:,
               casts, field access, p[i], *p, p + n, p - q, &local / &GLOBAL as call argument,
               sizeof(primitive type), calls of translated functions, memset.
  statements   declarations, assignments (= op= ++ --) as statements, if/else, switch
               without fall-through, while / for / do-while(0) (loops become a Fixpoint on
               explicit fuel, out of fuel = Fault Out_of_fuel), break, continue, return.
  dropped      statements that only call jls_log_printf (arguments must be free of side
               effects); they are listed in a comment of the generated function.
               A variable declared without initialiser has no Gallina binding until it is
               assigned: reading it earlier is an unbound-variable error of coqc.
ASSUMPTIONS written into every generated file: struct / scalar pointer parameters are
valid and do not alias; all `uint8_t *` values of one function point into one array.
Exit status: 0 ok; 3 = some construct is outside the subset (the tie is broken; the
previous generated file is left untouched); 2 = usage.
"""
import hashlib, json, os, subprocess, sys

REPO = os.environ.get("JLS_REPO", "/repo")
VERIF = os.path.dirname(os.path.dirname(os.path.abspath(__file__)))

# output module -> (source file, entry functions / fragments); callees are added automatically
# a fragment is (generated name, function, first statement starts with, last statement starts with, results)
FILES = {
    "GenMrb": ("src/msg_ring_buffer.c",
               ["jls_mrb_init", "jls_mrb_clear", "jls_mrb_alloc", "jls_mrb_peek", "jls_mrb_pop"]),
    "GenCore": ("src/core.c",
                ["jls_core_signal_def_validate", "jls_core_signal_def_align",
                 ("jls_core_fsr_seek'step_size", "jls_core_fsr_seek", "int64_t step_size = signal_def->samples_per_data;",
                  "for (int k", ["step_size"])]),
    "GenRaw": ("src/raw.c", ["payload_size_on_disk"]),
    "GenTmap": ("src/tmap.c",
                [("interp_i64'search", "interp_i64", "size_t low = 0;", "if (low >= (self->entries_length - 1))", ["low"])]),
    "GenFsr": ("src/wr_fsr.c",
               [("wr_data'omit_shift", "wr_data", "self->write_omit_data = (self->write_omit_data << 1)",
                 "self->write_omit_data = (self->write_omit_data << 1)", [])]),
}
LOG_FUNCS = {"jls_log_printf"}
PRIM = {  # desugared C type -> (signed, bits)   (x86-64 SysV, the platform of the harness)
    "_Bool": (False, 8), "char": (True, 8), "signed char": (True, 8), "unsigned char": (False, 8),
    "short": (True, 16), "unsigned short": (False, 16), "int": (True, 32), "unsigned int": (False, 32),
    "long": (True, 64), "unsigned long": (False, 64), "long long": (True, 64),
    "unsigned long long": (False, 64),
    "uint8_t": (False, 8), "uint16_t": (False, 16), "uint32_t": (False, 32), "uint64_t": (False, 64),
    "int8_t": (True, 8), "int16_t": (True, 16), "int32_t": (True, 32), "int64_t": (True, 64),
    "size_t": (False, 64), "intptr_t": (True, 64), "uintptr_t": (False, 64), "ptrdiff_t": (True, 64),
}
SIZEOF = {"double": 8, "float": 4}
RESERVED = set("""as at cofix else end exists exists2 fix for forall fun if IF in let match mod
 return Set Prop Type then using where with by bind Ok Fault Next Ret Null Ptr res ctl ptr len upd
 u8 u16 u32 u64 udiv umod ushl ushr sint sdiv smod sshl sshr cast_s cast_u b2z idx_of_Z ptr_add
 ptr_add_z ptr_diff ptr_eqb ptr_is_null load8 store8 memset8 loadN loadZ negb andb orb fst snd
 nth repeat firstn skipn length list nat N Z bool unit tt true false O S Some None option""".split())


class Unsupported(Exception):
    pass


SOURCE = {"text": ""}      # text of the C file being translated (for line numbers in messages)


def bad(node, what):
    loc = node.get("range", {}).get("begin", {})
    loc = loc.get("expansionLoc", loc)
    where = "?"
    if "offset" in loc and not loc.get("includedFrom") and "file" not in loc:
        where = "line %d" % (SOURCE["text"].count("\n", 0, loc["offset"]) + 1)
    raise Unsupported("%s [%s, %s]" % (what, node.get("kind"), where))


# ----------------------------------------------------------------------------- types
class Ty:
    """kind: int (signed, bits) | ptr (to: Ty) | struct (name) | void | other (text)"""
    def __init__(self, kind, signed=False, bits=0, to=None, name=None, const=False):
        self.kind, self.signed, self.bits, self.to, self.name, self.const = kind, signed, bits, to, name, const

    def coq(self):
        if self.kind == "bool":
            return "bool"
        if self.kind == "int":
            return "Z" if self.signed else "N"
        if self.kind == "ptr":
            if self.to.kind == "struct":
                return self.to.name
            return "ptr"
        if self.kind == "struct":
            return self.name
        raise Unsupported("no Gallina type for C type kind %s %s" % (self.kind, self.name))

    def scope(self):
        return ("Z" if self.signed else "N") if self.kind == "int" else "*"


def parse_type(text):
    t = text.strip()
    if t.endswith("*"):
        return Ty("ptr", to=parse_type(t[:-1]))
    if t.endswith("*const") or t.endswith("* const"):
        return Ty("ptr", to=parse_type(t[:t.rindex("*")]))
    words = t.split()
    const = "const" in words
    words = [w for w in words if w not in ("const", "volatile", "restrict")]
    t = " ".join(words)
    if t in PRIM:
        s, b = PRIM[t]
        return Ty("int", signed=s, bits=b, const=const)
    if t.startswith("struct "):
        return Ty("struct", name=t[7:], const=const)
    if t == "void":
        return Ty("void")
    return Ty("other", name=t)


def node_type(n):
    t = n.get("type", {})
    q = t.get("desugaredQualType") or t.get("qualType")
    if q is None:
        bad(n, "node without type")
    ty = parse_type(q)
    if ty.kind == "other" and "qualType" in t:
        ty2 = parse_type(t["qualType"])
        if ty2.kind != "other":
            return ty2
    return ty


# ----------------------------------------------------------------------------- expressions as text
class E:
    """Gallina text + the notation scope it must be read in ('N', 'Z' or '*' = any) + C type"""
    def __init__(self, text, scope, ty, atomic=False):
        self.text, self.scope, self.ty, self.atomic = text, scope, ty, atomic


def emb(e, amb, paren=True):
    """text of e for a position whose ambient notation scope is amb ('?' = unknown)"""
    if e.scope not in ("*", amb):
        return ("%s%%%s" if e.text.isdigit() else "(%s)%%%s") % (e.text, e.scope)
    if paren and not e.atomic:
        return "(%s)" % e.text
    return e.text


def lit(v, ty):
    if v < 0:
        return E("(%d)" % v, "Z", ty, True)
    return E("%d" % v, ty.scope(), ty, True)


BOOL = Ty("bool")
PRIMTY = {k: Ty("int", signed=s, bits=b) for k, (s, b) in PRIM.items()}


def wrapname(ty):
    return "u%d" % ty.bits


def strip_parens(n):
    while n.get("kind") in ("ParenExpr", "ConstantExpr"):
        n = n["inner"][0]
    return n


def kids(n):
    return n.get("inner", [])


# ----------------------------------------------------------------------------- translation unit
class TU:
    def __init__(self, path):
        cmd = ["clang", "-std=gnu11", "-fsyntax-only", "-w", "-DJLS_VERIF",
               "-I%s/include" % REPO, "-I%s/include_prv" % REPO, "-I%s/src" % REPO,
               "-Xclang", "-ast-dump=json", path]
        r = subprocess.run(cmd, capture_output=True, text=True)
        if r.returncode != 0:
            raise Unsupported("clang failed on %s:\n%s" % (path, r.stderr[-2000:]))
        self.ast = json.loads(r.stdout)
        self.funcs, self.order, self.records, self.enums, self.globals = {}, [], {}, {}, {}
        for d in kids(self.ast):
            k = d.get("kind")
            if k == "FunctionDecl" and any(c.get("kind") == "CompoundStmt" for c in kids(d)):
                self.funcs[d["name"]] = d
                self.order.append(d["name"])
            elif k == "RecordDecl" and d.get("completeDefinition") and "name" in d:
                self.records[d["name"]] = d
            elif k == "EnumDecl":
                self.read_enum(d)
            elif k == "VarDecl" and "name" in d:
                self.globals[d["name"]] = d

    def read_enum(self, d):
        nxt = 0
        for c in kids(d):
            if c.get("kind") != "EnumConstantDecl":
                continue
            init = [x for x in kids(c) if x.get("kind") not in ("FullComment",) and "Comment" not in x.get("kind", "")]
            if init:
                nxt = self.const_eval(init[0])
            self.enums[c["name"]] = nxt
            nxt += 1

    def const_eval(self, n):
        """value of an enum initialiser (literals, enum constants, + - | & << unary -, casts)"""
        k = n.get("kind")
        if k in ("ConstantExpr", "ParenExpr", "ImplicitCastExpr", "CStyleCastExpr"):
            if "value" in n and k == "ConstantExpr":
                return int(n["value"])
            return self.const_eval(kids(n)[0])
        if k == "IntegerLiteral":
            return int(n["value"])
        if k == "DeclRefExpr" and n["referencedDecl"]["kind"] == "EnumConstantDecl":
            return self.enums[n["referencedDecl"]["name"]]
        if k == "UnaryOperator" and n["opcode"] == "-":
            return -self.const_eval(kids(n)[0])
        if k == "BinaryOperator" and n["opcode"] in ("+", "-", "|", "&", "<<"):
            a, b = (self.const_eval(x) for x in kids(n))
            return {"+": a + b, "-": a - b, "|": a | b, "&": a & b, "<<": a << b}[n["opcode"]]
        bad(n, "enum initialiser")


# ----------------------------------------------------------------------------- AST scans
ASSIGN_OPS = {"=", "+=", "-=", "*=", "/=", "%=", "&=", "|=", "^=", "<<=", ">>="}


def walk(n):
    yield n
    for c in kids(n):
        if c:
            for x in walk(c):
                yield x


def callee_name(call):
    f = kids(call)[0]
    while f.get("kind") in ("ImplicitCastExpr", "ParenExpr"):
        f = kids(f)[0]
    if f.get("kind") != "DeclRefExpr" or f["referencedDecl"]["kind"] != "FunctionDecl":
        bad(call, "indirect call")
    return f["referencedDecl"]["name"]


def is_logging(s):
    """statement that does nothing but (conditionally) call a logging function"""
    def only_log(n):
        k = n.get("kind")
        if k == "NullStmt":
            return True
        if k == "CompoundStmt":
            return all(only_log(c) for c in kids(n))
        if k == "CallExpr":
            return callee_name(n) in LOG_FUNCS
        if k == "IfStmt" and len(kids(n)) == 2:
            return pure_expr(kids(n)[0]) and only_log(kids(n)[1])
        if k == "DoStmt":
            c = strip_parens(kids(n)[1])
            return c.get("kind") == "IntegerLiteral" and c["value"] == "0" and only_log(kids(n)[0])
        return False
    if not only_log(s):
        return False
    calls = [n for n in walk(s) if n.get("kind") == "CallExpr"]
    if not calls:
        return False
    for c in calls:
        for a in kids(c)[1:]:
            if not pure_expr(a):
                bad(c, "logging call with a side effect in its arguments")
    return True


def pure_expr(n):
    for x in walk(n):
        k = x.get("kind")
        if k in ("CallExpr", "CompoundAssignOperator", "StmtExpr"):
            return False
        if k == "BinaryOperator" and x["opcode"] in ASSIGN_OPS:
            return False
        if k == "UnaryOperator" and x["opcode"] in ("++", "--"):
            return False
    return True


def log_text(s):
    out = [x["value"] for x in walk(s) if x.get("kind") == "StringLiteral"]
    if not out:
        return ""
    fmt = out[0].strip('"').replace("%c %s:%d: ", "").replace("\\n", "")
    return out[-1].strip('"') if fmt == "%s" else fmt


def contains(n, kinds, stop=()):
    """does n contain a node of one of `kinds`, not looking below nodes of kind `stop`"""
    for c in kids(n):
        if not c:
            continue
        if c.get("kind") in kinds:
            return True
        if c.get("kind") in stop:
            continue
        if contains(c, kinds, stop):
            return True
    return False


LOOPS = ("WhileStmt", "ForStmt", "DoStmt")


def can_fall(s):
    """can control reach the statement after s by falling out of s (conservative: True)"""
    if s is None:
        return True
    k = s.get("kind")
    if k in ("ReturnStmt", "BreakStmt", "ContinueStmt"):
        return False
    if k == "CompoundStmt":
        return all(can_fall(c) for c in kids(s))
    if k == "IfStmt":
        c = kids(s)
        return can_fall(c[1]) or (can_fall(c[2]) if len(c) > 2 else True)
    if k == "DoStmt" and not is_logging(s):
        return can_fall(kids(s)[0])
    if k == "SwitchStmt":
        groups, has_default = switch_groups(s)
        if not has_default:
            return True
        return any(contains({"inner": g}, ("BreakStmt",), LOOPS + ("SwitchStmt",)) for _, g in groups) \
            or can_fall({"kind": "CompoundStmt", "inner": groups[-1][1]})
    return True


def can_fall_or_break(s):
    return can_fall(s) or contains({"inner": [s]}, ("BreakStmt",), LOOPS + ("SwitchStmt",))


def switch_groups(s):
    """[(labels or None for default, statements)], has_default; no fall-through allowed"""
    body = kids(s)[1]
    if body.get("kind") != "CompoundStmt":
        bad(s, "switch body that is not a block")
    groups, has_default = [], False
    for c in kids(body):
        labels = []
        first = c
        while first.get("kind") in ("CaseStmt", "DefaultStmt"):
            if first["kind"] == "CaseStmt":
                labels.append(kids(first)[0])
                first = kids(first)[1]
            else:
                labels.append(None)
                has_default = True
                first = kids(first)[0]
        if labels:
            if groups and can_fall({"kind": "CompoundStmt", "inner": groups[-1][1]}):
                bad(c, "switch case falling through into the next label")
            groups.append((labels, [first]))
        else:
            if not groups:
                bad(c, "statement before the first case label")
            groups[-1][1].append(c)
    return groups, has_default


# ----------------------------------------------------------------------------- one function
class Retry(Exception):
    pass


class Var:
    def __init__(self, name, kind, ty, bound=True):
        # kind: val (integer or byte pointer) | structptr (record, in/out) | cstruct (record, read only)
        #       | scalarptr (pointee value, in/out) | carray (const T *, T wider than a byte: read-only
        #       list of elements) | mem (the byte array)
        # bound = False: declared without initialiser and not assigned yet on this path - the Gallina
        # name does not exist; a read is an unbound-variable error of coqc (never a made-up value)
        self.name, self.kind, self.ty, self.bound = name, kind, ty, bound

    def as_bound(self):
        return self if self.bound else Var(self.name, self.kind, self.ty)

    def coq(self):
        if self.kind == "mem":
            return "list N"
        if self.kind == "scalarptr":
            return self.ty.to.coq()
        if self.kind == "carray":
            return "list %s" % self.ty.to.coq()
        return self.ty.coq()


def ind(text, n=2):
    return "\n".join((" " * n + l) if l else l for l in text.split("\n"))


def grouped(text):
    """text, in parentheses unless it is an identifier or already one parenthesised group"""
    if text.replace("'", "").replace("_", "").isalnum():
        return text
    depth = 0
    for i, ch in enumerate(text):
        depth += ch == "("
        depth -= ch == ")"
        if depth == 0 and i < len(text) - 1:
            return "(%s)" % text
    return text


def ok(text):
    return "Ok %s" % grouped(text)


def tuple_text(parts):
    return "tt" if not parts else parts[0] if len(parts) == 1 else "(%s)" % ", ".join(parts)


def pat_text(parts):
    return "_" if not parts else parts[0] if len(parts) == 1 else "'(%s)" % ", ".join(parts)


class Fn:
    def __init__(self, mod, decl):
        self.mod, self.tu, self.decl, self.name = mod, mod.tu, decl, decl["name"]
        self.flags = {"monadic": False, "uses_mem": False, "writes_mem": False, "fuel": False}
        self.ret = parse_type(decl["type"]["qualType"].split("(")[0])
        self.params = []
        for p in kids(decl):
            if p.get("kind") == "ParmVarDecl":
                self.params.append(self.classify(p))
        self.outs = [v.name for v in self.params if v.kind in ("structptr", "scalarptr")]

    def classify(self, p):
        ty, name = node_type(p), self.ident(p.get("name"), p)
        if ty.kind == "int":
            return Var(name, "val", ty)
        if ty.kind == "ptr" and ty.to.kind == "struct":
            self.mod.need_record(ty.to.name)
            return Var(name, "cstruct" if ty.to.const else "structptr", ty)
        if ty.kind == "ptr" and ty.to.kind == "int" and ty.to.bits == 8:
            return Var(name, "val", ty)
        if ty.kind == "ptr" and ty.to.kind == "int" and not ty.to.const:
            return Var(name, "scalarptr", ty)
        if ty.kind == "ptr" and ty.to.kind == "int" and ty.to.const:
            return Var(name, "carray", ty)          # read-only array of integers: list N / list Z
        bad(p, "parameter of type %s" % p["type"]["qualType"])

    def ident(self, name, node):
        if name is None or name in RESERVED or name in self.mod.globals_used or "'" in name:
            bad(node, "identifier %r collides with a reserved name" % name)
        return name

    def need(self, flag):
        self.uses[flag] = self.uses.get(flag, 0) + 1
        if not self.flags[flag]:
            self.flags[flag] = True
            raise Retry()

    # ---- result shapes
    def result_parts(self, value):
        parts = ([value] if value is not None else []) + list(self.outs)
        if self.flags["writes_mem"]:
            parts.append("mem'")
        return parts

    def result_type(self):
        parts = ([self.ret.coq()] if self.ret.kind != "void" else [])
        parts += [v.coq() for v in self.params if v.name in self.outs]
        if self.flags["writes_mem"]:
            parts.append("list N")
        t = " * ".join(parts) if parts else "unit"
        return t

    def wrap_ok(self, text):
        return ok(text) if self.flags["monadic"] else text

    def returning(self, text):
        """the function returns the result tuple `text` (from inside a loop: through Ret)"""
        if self.loops:
            return "Ok (Ret %s)" % grouped(text)
        return self.wrap_ok(text)

    def fault(self, what):
        self.need("monadic")
        return "Fault %s" % what

    # ---- prelude (hoisted binds) handling
    def hoist(self, rhs, ty, monadic=True):
        """bind the result of a faulting computation to a fresh temporary"""
        if monadic:
            self.need("monadic")
        self.ntmp += 1
        t = "t'%d" % self.ntmp
        self.pre[-1].append(("bind" if monadic else "let", rhs, [t]))
        return E(t, "*", ty, True)

    def bind_name(self, e, name):
        """e is the temporary bound by the last hoisted computation: bind `name` there instead"""
        if not (self.pre[-1] and e.text.startswith("t'")):
            return False
        kind, rhs, names = self.pre[-1][-1]
        if e.text not in names or name in names:
            return False
        self.pre[-1][-1] = (kind, rhs, [name if x == e.text else x for x in names])
        return True

    def open_pre(self):
        self.pre.append([])

    def close_pre(self, text):
        for kind, rhs, names in reversed(self.pre.pop()):
            if kind == "bind":
                text = "bind (%s) (fun %s =>\n%s)" % (rhs, pat_text(names), text)
            else:
                text = "let %s := %s in\n%s" % (pat_text(names), rhs, text)
        return text

    # ---- variables
    def var_of(self, n):
        """the Var a DeclRefExpr (below casts / parens) names, or None"""
        n = strip_parens(n)
        while n.get("kind") in ("ImplicitCastExpr", "ParenExpr") and n.get("castKind") in (None, "LValueToRValue", "NoOp"):
            n = strip_parens(kids(n)[0])
        if n.get("kind") == "DeclRefExpr" and n["referencedDecl"]["kind"] in ("ParmVarDecl", "VarDecl"):
            return self.env.get(n["referencedDecl"]["name"])
        return None

    def global_struct(self, n):
        """name of the global const struct that `n` (GLOBAL or &GLOBAL) denotes, or None"""
        n = strip_parens(n)
        if n.get("kind") == "UnaryOperator" and n["opcode"] == "&":
            n = strip_parens(kids(n)[0])
        if n.get("kind") == "DeclRefExpr" and n["referencedDecl"]["kind"] == "VarDecl":
            name = n["referencedDecl"]["name"]
            if name not in self.env and name in self.tu.globals:
                return self.mod.need_global(name, n)
        return None

    # ---- expressions
    def ex(self, n):
        m = getattr(self, "ex_" + n.get("kind", "?"), None)
        if m is None:
            bad(n, "unsupported expression")
        return m(n)

    def ex_IntegerLiteral(self, n):
        return lit(int(n["value"]), node_type(n))

    ex_CharacterLiteral = ex_IntegerLiteral

    def ex_ParenExpr(self, n):
        return self.ex(kids(n)[0])

    ex_ConstantExpr = ex_ParenExpr

    def ex_DeclRefExpr(self, n):
        rd = n["referencedDecl"]
        if rd["kind"] == "EnumConstantDecl":
            v, ty = self.tu.enums[rd["name"]], node_type(n)
            return E("%s (* %s *)" % ("(%d)" % v if v < 0 else v, rd["name"]), ty.scope(), ty)
        v = self.env.get(rd.get("name"))
        if v is None:
            g = self.global_struct(n)
            if g:
                return E(g, "*", node_type(n), True)
            bad(n, "reference to %s %s" % (rd["kind"], rd.get("name")))
        if v.kind in ("val", "cstruct"):
            return E(v.name, "*", v.ty, True)
        bad(n, "pointer parameter %s used as a value" % v.name)

    def ex_ImplicitCastExpr(self, n):
        ck, inner = n["castKind"], kids(n)[0]
        if ck in ("LValueToRValue", "NoOp"):
            return self.ex(inner)
        if ck == "IntegralCast":
            to, i2 = node_type(n), strip_parens(inner)
            if to.kind != "int":
                bad(n, "cast to %s" % n["type"]["qualType"])
            is_enum = i2.get("kind") == "DeclRefExpr" and i2["referencedDecl"]["kind"] == "EnumConstantDecl"
            if i2.get("kind") == "IntegerLiteral" or is_enum:
                v = self.tu.enums[i2["referencedDecl"]["name"]] if is_enum else int(i2["value"])
                if is_enum and not (0 <= v < (1 << (to.bits - 1))):
                    bad(n, "cast of a negative / large enum constant")
                if is_enum:
                    return E("%d (* %s *)" % (v, i2["referencedDecl"]["name"]), to.scope(), to)
                if not to.signed:
                    v %= 1 << to.bits                     # conversion to unsigned is modular
                elif not -(1 << (to.bits - 1)) <= v < (1 << (to.bits - 1)):
                    bad(n, "literal does not fit the signed target type")
                return lit(v, to)
            return self.cast(self.ex(inner), to, n)
        if ck == "NullToPointer":
            return E("Null", "*", node_type(n), True)
        if ck == "BitCast":
            e = self.ex(inner)
            if not self.is_byte_ptr(e.ty):
                bad(n, "pointer cast")
            return e
        bad(n, "cast kind %s" % ck)

    ex_CStyleCastExpr = ex_ImplicitCastExpr

    def is_byte_ptr(self, ty):
        return ty.kind == "ptr" and ty.to.kind == "int" and ty.to.bits == 8 and not ty.to.signed

    def cast(self, e, to, n):
        fr = e.ty
        if fr.kind != "int":
            bad(n, "integral cast of a non-integer")
        if not fr.signed and not to.signed:
            if to.bits >= fr.bits:
                return E(e.text, e.scope, to, e.atomic)
            return E("u%d %s" % (to.bits, emb(e, "N")), "*", to)
        if not fr.signed and to.signed:
            z = E("Z.of_N %s" % emb(e, "N"), "*", to)
            return z if to.bits > fr.bits else E("cast_s %d %s" % (to.bits, emb(z, "Z")), "*", to)
        if fr.signed and not to.signed:
            return E("cast_u %d %s" % (to.bits, emb(e, "Z")), "*", to)
        if to.bits >= fr.bits:
            return E(e.text, e.scope, to, e.atomic)
        return E("cast_s %d %s" % (to.bits, emb(e, "Z")), "*", to)

    def ex_MemberExpr(self, n):
        base, ty = kids(n)[0], node_type(n)
        v = self.var_of(base)
        if v and v.kind in ("structptr", "cstruct") and n.get("isArrow"):
            return E("%s.(%s)" % (v.name, self.mod.proj(v.ty.to.name, n["name"], n)), "*", ty, True)
        g = self.global_struct(base)
        if g and not n.get("isArrow"):
            return E("%s.(%s)" % (g, self.mod.proj(node_type(strip_parens(base)).name, n["name"], n)), "*", ty, True)
        bad(n, "field access whose base is not a struct pointer parameter / const struct")

    def ex_UnaryOperator(self, n):
        op, a, ty = n["opcode"], kids(n)[0], node_type(n)
        if op == "*":
            v = self.var_of(a)
            if v and v.kind == "scalarptr":
                return E(v.name, "*", ty, True)
            return self.load(self.ex(a), lit(0, PRIMTY["unsigned int"]), n)
        if op == "&":
            g = self.global_struct(n)
            if g:
                return E(g, "*", ty, True)
            bad(n, "address-of that is not a call argument")
        if op == "!":
            return E("b2z %s" % emb(self.cond(n), "?"), "*", ty)
        if op == "+":
            return self.ex(a)
        e = self.ex(a)
        if ty.kind != "int" or ty.bits < 32:
            bad(n, "unary %s on %s" % (op, n["type"]["qualType"]))
        if op == "-":
            if ty.signed:
                return self.hoist("sint %d (- %s)" % (ty.bits, emb(e, "Z")), ty)
            return E("u%d (%d - %s)" % (ty.bits, 1 << ty.bits, emb(e, "N")), "*", ty)
        if op == "~":
            if ty.signed:
                return E("- %s - 1" % emb(e, "Z"), "Z", ty)
            return E("%d - %s" % ((1 << ty.bits) - 1, emb(e, "N")), "N", ty)
        bad(n, "unary operator %s inside an expression" % op)

    def ex_BinaryOperator(self, n):
        op, (a, b), ty = n["opcode"], kids(n), node_type(n)
        if op in ASSIGN_OPS or op == ",":
            bad(n, "assignment / comma inside an expression")
        if op in ("<", ">", "<=", ">=", "==", "!=", "&&", "||"):
            return E("b2z %s" % emb(self.cond(n), "?"), "*", ty)
        ta, tb = node_type(a), node_type(b)
        if "ptr" in (ty.kind, ta.kind, tb.kind):
            return self.ptr_arith(n, op, a, b, ty, ta, tb)
        if ty.kind != "int" or ty.bits < 32:
            bad(n, "arithmetic in type %s" % n["type"]["qualType"])
        ea, eb = self.ex(a), self.ex(b)
        if op in ("<<", ">>"):
            return self.shift(n, op, ea, eb, ty, b)
        if not ty.signed:
            A, B, w = emb(ea, "N"), emb(eb, "N"), "u%d" % ty.bits
            if op == "+":
                return E("%s (%s + %s)" % (w, A, B), "*", ty)
            if op == "-":
                return E("%s (%s + %d - %s)" % (w, A, 1 << ty.bits, B), "*", ty)
            if op == "*":
                return E("%s (%s * %s)" % (w, A, B), "*", ty)
            if op in ("/", "%"):
                return self.hoist("%s %s %s" % ("udiv" if op == "/" else "umod", A, B), ty)
            if op in ("&", "|", "^"):
                return E("%s %s %s" % ({"&": "N.land", "|": "N.lor", "^": "N.lxor"}[op], A, B), "*", ty)
        else:
            A, B, w = emb(ea, "Z"), emb(eb, "Z"), ty.bits
            if op in ("+", "-", "*"):
                return self.hoist("sint %d (%s %s %s)" % (w, A, op, B), ty)
            if op in ("/", "%"):
                return self.hoist("%s %d %s %s" % ("sdiv" if op == "/" else "smod", w, A, B), ty)
            if op in ("&", "|", "^"):
                return E("%s %s %s" % ({"&": "Z.land", "|": "Z.lor", "^": "Z.lxor"}[op], A, B), "*", ty)
        bad(n, "binary operator %s" % op)

    def shift(self, n, op, ea, eb, ty, bnode):
        b0 = strip_parens(bnode)
        while b0.get("kind") == "ImplicitCastExpr":
            b0 = strip_parens(kids(b0)[0])
        k = int(b0["value"]) if b0.get("kind") == "IntegerLiteral" else None
        if k is not None and 0 <= k < ty.bits:
            if not ty.signed:
                A = emb(ea, "N")
                return E("u%d (N.shiftl %s %d)" % (ty.bits, A, k) if op == "<<" else "N.shiftr %s %d" % (A, k), "*", ty)
            A = emb(ea, "Z")
            if op == ">>":
                return E("Z.shiftr %s %d" % (A, k), "*", ty)
            return self.hoist("sshl %d %s %d" % (ty.bits, A, k), ty)
        if not ty.signed:
            K = emb(self.index(eb), "N")
            return self.hoist("%s %d %s %s" % ("ushl" if op == "<<" else "ushr", ty.bits, emb(ea, "N"), K), ty)
        K = emb(eb, "Z") if eb.ty.signed else "(Z.of_N %s)" % emb(eb, "N")
        return self.hoist("%s %d %s %s" % ("sshl" if op == "<<" else "sshr", ty.bits, emb(ea, "Z"), K), ty)

    def index(self, e):
        """an integer used as array index / count, as N"""
        if e.ty.kind != "int":
            raise Unsupported("index that is not an integer")
        if not e.ty.signed:
            return e
        if e.text.isdigit():
            return E(e.text, "N", e.ty, True)
        return self.hoist("idx_of_Z %s" % emb(e, "Z"), PRIMTY["unsigned long"])

    def ptr_arith(self, n, op, a, b, ty, ta, tb):
        if ta.kind == "ptr" and tb.kind == "ptr" and op == "-":
            ea, eb = self.ex(a), self.ex(b)
            if not (self.is_byte_ptr(ta) and self.is_byte_ptr(tb)):
                bad(n, "difference of pointers that are not byte pointers")
            return self.hoist("ptr_diff %s %s" % (emb(ea, "?"), emb(eb, "?")), ty)
        if ty.kind == "ptr" and op in ("+", "-"):
            if tb.kind == "ptr":
                if op == "-":
                    bad(n, "integer - pointer")
                a, b = b, a
            ep, ei = self.ex(a), self.ex(b)
            if not self.is_byte_ptr(ep.ty) or ei.ty.kind != "int":
                bad(n, "arithmetic on a pointer that is not a byte pointer")
            if op == "+" and (not ei.ty.signed or ei.text.isdigit()):
                ei = self.index(ei)
                return self.hoist("ptr_add %s %s" % (emb(ep, "?"), emb(ei, "N")), ty)
            z = emb(ei, "Z") if ei.ty.signed else "(Z.of_N %s)" % emb(ei, "N")
            return self.hoist("ptr_add_z %s %s" % (emb(ep, "?"), z if op == "+" else "(- %s)%%Z" % z), ty)
        bad(n, "pointer operation %s" % op)

    def load(self, pe, ie, n):
        if not self.is_byte_ptr(pe.ty):
            bad(n, "read through a pointer that is not `uint8_t *`")
        self.need("uses_mem")
        return self.hoist("load8 mem' %s %s" % (emb(pe, "?"), emb(self.index(ie), "N")), pe.ty.to)

    def ex_ArraySubscriptExpr(self, n):
        base, idx = kids(n)
        v = self.var_of(base)
        if v and v.kind == "carray":
            ety = v.ty.to
            return self.hoist("%s %s %s" % ("loadZ" if ety.signed else "loadN", v.name,
                                            emb(self.index(self.ex(idx)), "N")), ety)
        t = self.mod.global_array(base, self)
        if t:
            name, ety = t
            return self.hoist("%s %s %s" % ("loadZ" if ety.signed else "loadN", name, emb(self.index(self.ex(idx)), "N")), ety)
        return self.load(self.ex(base), self.ex(idx), n)

    def ex_ConditionalOperator(self, n):
        (c, a, b), ty = kids(n), node_type(n)
        cc = self.cond(c)
        self.open_pre()
        ea = self.ex(a)
        pa = self.pre.pop()
        self.open_pre()
        eb = self.ex(b)
        pb = self.pre.pop()
        s = ty.scope()
        amb = s if s != "*" else "?"
        if not pa and not pb:
            return E("if %s then %s else %s" % (emb(cc, amb, False), emb(ea, amb, False), emb(eb, amb, False)), s, ty)
        self.need("monadic")
        self.pre.append(pa)
        ta = self.close_pre("Ok %s" % emb(ea, "N"))
        self.pre.append(pb)
        tb = self.close_pre("Ok %s" % emb(eb, "N"))
        return self.hoist("if %s then\n%s\nelse\n%s" % (emb(cc, "N", False), ind(ta), ind(tb)), ty)

    def ex_UnaryExprOrTypeTraitExpr(self, n):
        t = n.get("argType", {}).get("qualType")
        if n.get("name") != "sizeof" or t is None:
            bad(n, "sizeof of an expression / alignof")
        size = SIZEOF.get(t) or (PRIM[t][1] // 8 if t in PRIM else None)
        if size is None:
            bad(n, "sizeof(%s)" % t)
        return lit(size, node_type(n))

    def ex_CallExpr(self, n):
        e = self.call(n)
        if e is None:
            bad(n, "value of a void call")
        return e

    # ---- conditions (Gallina bool)
    def cond(self, n):
        n0 = strip_parens(n)
        k = n0.get("kind")
        if k == "BinaryOperator" and n0["opcode"] in ("&&", "||"):
            a, b = kids(n0)
            ca = self.cond(a)
            self.open_pre()
            cb = self.cond(b)
            if self.pre[-1]:                       # right operand can fault: keep it lazy
                self.need("monadic")
                inner = self.close_pre("Ok %s" % emb(cb, "N"))
                if n0["opcode"] == "&&":
                    rhs = "if %s then\n%s\nelse Ok false" % (emb(ca, "N", False), ind(inner))
                else:
                    rhs = "if %s then Ok true else\n%s" % (emb(ca, "N", False), ind(inner))
                return self.hoist(rhs, BOOL)
            self.pre.pop()
            return E("%s %s %s" % (emb(ca, "N"), n0["opcode"], emb(cb, "N")), "N", BOOL)
        if k == "BinaryOperator" and n0["opcode"] in ("<", ">", "<=", ">=", "==", "!="):
            op, (a, b) = n0["opcode"], kids(n0)
            ea, eb = self.ex(a), self.ex(b)
            if ea.ty.kind == "ptr" or eb.ty.kind == "ptr":
                if op not in ("==", "!="):
                    bad(n0, "ordering comparison of pointers")
                t = "ptr_eqb %s %s" % (emb(ea, "?"), emb(eb, "?"))
                return E(t if op == "==" else "negb (%s)" % t, "*", BOOL)
            if ea.ty.kind != "int" or eb.ty.kind != "int" or ea.ty.signed != eb.ty.signed:
                bad(n0, "comparison of %s and %s" % (ea.ty.kind, eb.ty.kind))
            s = ea.ty.scope()
            A, B = emb(ea, s), emb(eb, s)
            t = {"<": "%s <? %s" % (A, B), "<=": "%s <=? %s" % (A, B), ">": "%s <? %s" % (B, A),
                 ">=": "%s <=? %s" % (B, A), "==": "%s =? %s" % (A, B), "!=": "negb (%s =? %s)" % (A, B)}[op]
            return E(t, s, BOOL)
        if k == "UnaryOperator" and n0["opcode"] == "!":
            c = self.cond(kids(n0)[0])
            return E("negb %s" % emb(c, c.scope if c.scope != "*" else "?"), c.scope, BOOL)
        if k in ("ImplicitCastExpr", "CStyleCastExpr") and n0["castKind"] in ("IntegralToBoolean", "PointerToBoolean"):
            return self.cond(kids(n0)[0])
        e = self.ex(n0)
        if e.ty.kind == "int":
            s = e.ty.scope()
            return E("negb (%s =? 0)" % emb(e, s), s, BOOL)
        if e.ty.kind == "ptr":
            return E("negb (ptr_is_null %s)" % emb(e, "?"), "*", BOOL)
        bad(n0, "condition of type %s" % e.ty.kind)

    # ---- calls
    def call(self, n):
        name, args = callee_name(n), kids(n)[1:]
        if name == "memset":
            self.need("uses_mem")
            self.need("writes_mem")
            self.need("monadic")
            p, c, sz = (self.ex(a) for a in args)
            if not self.is_byte_ptr(p.ty):
                bad(n, "memset of something that is not the byte array")
            self.pre[-1].append(("bind", "memset8 mem' %s %s %s" % (emb(p, "?"), emb(c, "Z"), emb(sz, "N")), ["mem'"]))
            return p
        fi = self.mod.fn(name, n)
        for f in ("fuel", "uses_mem", "writes_mem"):
            if fi.flags[f]:
                self.need(f)
        if len(args) != len(fi.params):
            bad(n, "argument count")
        argt = (["fuel'"] if fi.flags["fuel"] else []) + (["mem'"] if fi.flags["uses_mem"] else [])
        outs = []
        for pv, a in zip(fi.params, args):
            if pv.kind == "val":
                argt.append(emb(self.ex(a), "?"))
                continue
            v, a0 = self.var_of(a), strip_parens(a)
            if pv.kind == "scalarptr" and a0.get("kind") == "UnaryOperator" and a0["opcode"] == "&":
                v = self.var_of(kids(a0)[0])
                ok = v and v.kind == "val" and v.ty.kind == "int" and \
                    (v.ty.signed, v.ty.bits) == (pv.ty.to.signed, pv.ty.to.bits)
            elif pv.kind == "scalarptr":
                ok = v and v.kind == "scalarptr"
            elif pv.kind == "carray":
                ok = v and v.kind == "carray" and (v.ty.to.signed, v.ty.to.bits) == (pv.ty.to.signed, pv.ty.to.bits)
            elif pv.kind == "structptr":
                ok = v and v.kind == "structptr" and v.ty.to.name == pv.ty.to.name
            else:
                ok = v and v.kind in ("structptr", "cstruct") and v.ty.to.name == pv.ty.to.name
                if not ok:
                    g = self.global_struct(a)
                    if g:
                        argt.append(g)
                        continue
            if not ok:
                bad(a, "argument for pointer parameter %s of %s" % (pv.name, name))
            argt.append(v.name)
            if pv.kind in ("structptr", "scalarptr"):
                outs.append(v.name)
        if len(set(outs)) != len(outs):
            bad(n, "the same object passed for two pointer parameters")
        if (outs or fi.flags["writes_mem"]) and n is not self.top_call:
            bad(n, "call with side effects that is not a whole statement / initialiser / condition")
        text = " ".join([fi.name] + argt)
        pat, rt = [], None
        if fi.ret.kind != "void":
            self.ntmp += 1
            rt = "t'%d" % self.ntmp
            pat.append(rt)
        pat += outs + (["mem'"] if fi.flags["writes_mem"] else [])
        if fi.flags["monadic"]:
            self.need("monadic")
            self.pre[-1].append(("bind", text, pat))
        elif pat == [rt]:
            return E(text, "*", fi.ret)
        elif pat:
            self.pre[-1].append(("let", text, pat))
        return E(rt, "*", fi.ret, True) if rt else None

    def top(self, n):
        """mark n (below casts / parens) as the one place where a call with side effects may be"""
        while n.get("kind") in ("ParenExpr", "ImplicitCastExpr", "CStyleCastExpr", "ConstantExpr"):
            n = kids(n)[0]
        self.top_call = n

    # ---- which variables a statement may change
    def mods(self, n, acc=None):
        acc = set() if acc is None else acc
        for x in walk(n):
            k = x.get("kind")
            if (k == "BinaryOperator" and x["opcode"] in ASSIGN_OPS) or k == "CompoundAssignOperator" or \
                    (k == "UnaryOperator" and x["opcode"] in ("++", "--")):
                acc.add(self.lvalue_root(kids(x)[0]))
            elif k == "CallExpr":
                name = callee_name(x)
                if name == "memset":
                    acc.add("mem'")
                elif name not in LOG_FUNCS:
                    fi = self.mod.fn(name, x)
                    if fi.flags["writes_mem"]:
                        acc.add("mem'")
                    for pv, a in zip(fi.params, kids(x)[1:]):
                        if pv.kind in ("structptr", "scalarptr"):
                            a0 = strip_parens(a)
                            if a0.get("kind") == "UnaryOperator" and a0["opcode"] == "&":
                                a0 = kids(a0)[0]
                            v = self.var_of(a0)
                            if v:
                                acc.add(v.name)
        return acc

    def lvalue_root(self, n):
        n = strip_parens(n)
        k = n.get("kind")
        if k == "DeclRefExpr":
            return n["referencedDecl"].get("name")
        if k == "MemberExpr":
            v = self.var_of(kids(n)[0])
            if v and v.kind == "structptr":
                return v.name
        if k == "UnaryOperator" and n["opcode"] == "*":
            v = self.var_of(kids(n)[0])
            if v and v.kind == "scalarptr":
                return v.name
            return "mem'"
        if k == "ArraySubscriptExpr":
            return "mem'"
        bad(n, "assignment target")

    def refs(self, n):
        out = set()
        for x in walk(n):
            if x.get("kind") == "DeclRefExpr" and x["referencedDecl"]["kind"] in ("ParmVarDecl", "VarDecl"):
                out.add(x["referencedDecl"].get("name"))
        return out

    # ---- statements: st(s, k) = Gallina text of "s, then k()" ; k is called at most once
    def seq(self, lst, i, k):
        if i == len(lst):
            return k()
        return self.st(lst[i], k if i == len(lst) - 1 else lambda: self.seq(lst, i + 1, k))

    def st(self, s, k):
        kind = s.get("kind")
        if is_logging(s):
            self.dropped.append(log_text(s))
            return k()
        m = getattr(self, "st_" + kind, None)
        if m is not None:
            return m(s, k)
        if kind in ("BinaryOperator", "CompoundAssignOperator", "UnaryOperator", "CallExpr", "ParenExpr"):
            return self.st_expr(s, k)
        bad(s, "unsupported statement")

    def st_NullStmt(self, s, k):
        return k()

    def st_CompoundStmt(self, s, k):
        saved = dict(self.env)

        def k2():                               # leave the block: its declarations go, assignments stay
            self.env = {n: self.env.get(n, v) for n, v in saved.items()}
            return k()
        k2.small = getattr(k, "small", False)
        return self.seq(kids(s), 0, k2)

    def st_DeclStmt(self, s, k):
        text = []
        for d in kids(s):
            if d.get("kind") != "VarDecl":
                bad(d, "declaration")
            ty, name = node_type(d), self.ident(d["name"], d)
            if name in self.env:
                bad(d, "declaration of %s hides another variable" % name)
            if d.get("storageClass"):
                bad(d, "static / extern local")
            if ty.kind == "int" or self.is_byte_ptr(ty):
                v = Var(name, "val", ty)
            elif ty.kind == "ptr" and ty.to.kind == "struct" and ty.to.const:
                self.mod.need_record(ty.to.name)
                v = Var(name, "cstruct", ty)
            else:
                bad(d, "local variable of type %s" % d["type"]["qualType"])
            init = [c for c in kids(d) if "Comment" not in c.get("kind", "")]
            if init:
                self.open_pre()
                self.top(init[0])
                e = self.ex(init[0])
                self.env[name] = v
                line = None if self.bind_name(e, name) else "let %s := %s in" % (name, emb(e, "N", False))
                text.append((self.pre.pop(), line))
            else:
                self.env[name] = Var(v.name, v.kind, v.ty, bound=False)   # no binding until it is assigned
        body = k()
        for pre, line in reversed(text):
            self.pre.append(pre)
            body = self.close_pre(line + "\n" + body if line else body)
        return body

    def assign(self, lhs, e, k):
        """lhs = e (e already of the type of lhs), then k()"""
        lhs = strip_parens(lhs)
        kind = lhs.get("kind")
        if kind == "DeclRefExpr":
            v = self.env.get(lhs["referencedDecl"].get("name"))
            if v is None or v.kind not in ("val", "cstruct"):
                bad(lhs, "assignment to %s" % lhs["referencedDecl"].get("name"))
            self.env[v.name] = v.as_bound()
            if self.bind_name(e, v.name):
                return k()
            return "let %s := %s in\n%s" % (v.name, emb(e, "N", False), k())
        if kind == "MemberExpr":
            v = self.var_of(kids(lhs)[0])
            if v and v.kind == "structptr" and lhs.get("isArrow"):
                setter = self.mod.setter(v.ty.to.name, lhs["name"], lhs)
                return "let %s := %s %s %s in\n%s" % (v.name, setter, v.name, emb(e, "?"), k())
        if kind == "UnaryOperator" and lhs["opcode"] == "*":
            v = self.var_of(kids(lhs)[0])
            if v and v.kind == "scalarptr":
                return "let %s := %s in\n%s" % (v.name, emb(e, "N", False), k())
            return self.store(self.ex(kids(lhs)[0]), lit(0, PRIMTY["unsigned int"]), e, lhs, k)
        if kind == "ArraySubscriptExpr":
            base, idx = kids(lhs)
            return self.store(self.ex(base), self.ex(idx), e, lhs, k)
        bad(lhs, "assignment target")

    def store(self, pe, ie, e, n, k):
        if not self.is_byte_ptr(pe.ty):
            bad(n, "write through a pointer that is not `uint8_t *`")
        self.need("uses_mem")
        self.need("writes_mem")
        self.need("monadic")
        i = self.index(ie)
        return "bind (store8 mem' %s %s %s) (fun mem' =>\n%s)" % (emb(pe, "?"), emb(i, "N"), emb(e, "N"), k())

    def st_expr(self, s, k):
        s0 = strip_parens(s)
        kind = s0.get("kind")
        self.open_pre()
        self.top(s0)
        if kind == "BinaryOperator" and s0["opcode"] == "=":
            lhs, rhs = kids(s0)
            self.top(rhs)
            e = self.ex(rhs)
            text = self.assign(lhs, e, k)
        elif kind == "CompoundAssignOperator":
            lhs, rhs = kids(s0)
            text = self.assign(lhs, self.arith_assign(s0, lhs, rhs, s0["opcode"][:-1]), k)
        elif kind == "UnaryOperator" and s0["opcode"] in ("++", "--"):
            lhs = kids(s0)[0]
            one = {"kind": "IntegerLiteral", "value": "1", "type": s0["type"], "range": s0.get("range", {})}
            text = self.assign(lhs, self.arith_assign(s0, lhs, one, s0["opcode"][0]), k)
        elif kind == "CallExpr":
            self.call(s0)
            text = k()
        else:
            bad(s0, "expression statement")
        return self.close_pre(text)

    def arith_assign(self, s, lhs, rhs, op):
        """value of (T)(lhs op rhs) for `lhs op= rhs`, ++lhs, --lhs"""
        lt = node_type(lhs)
        ct = parse_type(s["computeResultType"]["qualType"]) if "computeResultType" in s else lt
        if lt.kind != "int" or ct.kind != "int" or lt.bits < 32 or (ct.signed, ct.bits) != (lt.signed, lt.bits):
            bad(s, "%s= on type %s" % (op, s["type"]["qualType"]))
        fake = {"kind": "BinaryOperator", "opcode": op, "type": s["type"], "range": s.get("range", {}),
                "inner": [{"kind": "ImplicitCastExpr", "castKind": "LValueToRValue", "type": lhs["type"], "inner": [lhs]}, rhs]}
        return self.ex(fake)

    def st_ReturnStmt(self, s, k):
        c = kids(s)
        self.open_pre()
        val = None
        if c:
            self.top(c[0])
            val = emb(self.ex(c[0]), "N", False)
        return self.close_pre(self.returning(tuple_text(self.result_parts(val))))

    def st_IfStmt(self, s, k):
        c = kids(s)
        cnd, then, els = c[0], c[1], (c[2] if len(c) > 2 else None)
        branches = [then] + ([els] if els else [])
        self.open_pre()
        self.top(cnd)
        cc = emb(self.cond(cnd), "N", False)
        env0 = dict(self.env)
        both = can_fall(then) and can_fall(els)
        jumps = ("ReturnStmt", "BreakStmt", "ContinueStmt", "GotoStmt")
        if both and not any(contains({"inner": [b]}, jumps) for b in branches):
            # both branches only compute: the `if` yields the variables they may change
            vs = self.modified(branches + ([] if els else [{"kind": "NullStmt"}]))
            names = [v.name for v in vs]
            n0 = self.uses.get("monadic", 0)
            tt = self.st(then, lambda: "\0")
            self.env = dict(env0)
            te = self.st(els, lambda: "\0") if els else "\0"
            self.env = dict(env0)
            text = "if %s then\n%s\nelse\n%s" % (cc, ind(tt), ind(te))
            self.mark_bound(vs)
            if self.uses.get("monadic", 0) != n0:
                text = "bind (%s) (fun %s =>\n%s)" % (text.replace("\0", ok(tuple_text(names))), pat_text(names), k())
            else:
                text = "let %s :=\n%s in\n%s" % (pat_text(names), ind(text.replace("\0", tuple_text(names))), k())
            return self.close_pre(text)
        use, wrap = self.join(k, branches + ([] if els else [{"kind": "NullStmt"}]), both)
        tt = self.st(then, use)
        self.env = dict(env0)
        te = self.st(els, use) if els else use()
        self.env = dict(env0)
        return self.close_pre(wrap("if %s then\n%s\nelse\n%s" % (cc, ind(tt), ind(te))))

    def modified(self, stmts):
        """variables the branches `stmts` may change and that have a value after every branch"""
        m = set()
        for b in stmts:
            self.mods(b, m)
        return [v for v in self.env.values() if v.name in m and
                (v.bound or all(not can_fall_or_break(b) or self.assigns(b, v.name) for b in stmts))]

    def assigns(self, s, name):
        """s definitely assigns variable `name` when control leaves it normally (syntactic)"""
        if s is None:
            return False
        k = s.get("kind")
        if k == "BinaryOperator" and s["opcode"] == "=":
            l = strip_parens(kids(s)[0])
            return l.get("kind") == "DeclRefExpr" and l["referencedDecl"].get("name") == name
        if k == "CompoundStmt":
            return any(self.assigns(c, name) for c in kids(s))
        if k == "IfStmt":
            c = kids(s)
            return len(c) > 2 and all(not can_fall_or_break(b) or self.assigns(b, name) for b in c[1:3])
        return False

    def mark_bound(self, vs):
        for v in vs:
            self.env[v.name] = v.as_bound()

    def join(self, k, stmts, shared):
        """(use, wrap): `use()` is the text that continues with k; when several branches continue
        (shared) k becomes a let-bound function k'N of the variables the branches may change and
        `wrap` puts its definition in front.  A continuation that already is such a call is reused."""
        if not shared or getattr(k, "small", False):
            return k, (lambda text: text)
        self.njoin += 1
        name = "k'%d" % self.njoin
        vs = self.modified(stmts)
        env0 = dict(self.env)
        self.mark_bound(vs)
        body = k()
        self.env = env0
        if vs:
            head = "let %s := fun %s =>\n%s in\n" % (name, " ".join("(%s : %s)" % (v.name, v.coq()) for v in vs), ind(body))
        else:
            head = "let %s :=\n%s in\n" % (name, ind(body))
        use = lambda: " ".join([name] + [v.name for v in vs])
        use.small = True
        return use, (lambda text: head + text)

    def st_SwitchStmt(self, s, k):
        groups, has_default = switch_groups(s)
        self.open_pre()
        self.top(kids(s)[0])
        e = self.ex(kids(s)[0])
        if e.ty.kind != "int":
            bad(s, "switch on a non-integer")
        sc = e.ty.scope()
        self.nsw += 1
        sw = E("sw'%d" % self.nsw, "*", e.ty, True)
        use, wrap = self.join(k, [{"kind": "CompoundStmt", "inner": grp} for _, grp in groups] +
                              ([] if has_default else [{"kind": "NullStmt"}]), True)
        env0 = dict(self.env)
        self.breaks.append(use)
        default, arms = None, []
        for labels, grp in groups:
            grp = grp[:-1] if grp and grp[-1].get("kind") == "BreakStmt" else grp
            self.env = dict(env0)
            body = self.seq(grp, 0, use)
            tests = []
            for l in labels:
                if l is None:
                    default = body
                else:
                    le = self.ex(l)           # constant expression; anything hoisted is evaluated before the switch
                    le = self.cast(le, e.ty, l) if (le.ty.signed, le.ty.bits) != (e.ty.signed, e.ty.bits) else le
                    tests.append("(%s =? %s)" % (emb(sw, sc), emb(le, sc)))
            if tests:
                t = " || ".join(tests)
                arms.append(("(%s)%%%s" % (t, sc) if len(tests) > 1 else "%s%%%s" % (t, sc), body))
        self.breaks.pop()
        self.env = dict(env0)
        text = default if default is not None else use()
        for t, body in reversed(arms):
            text = "if %s then\n%s\nelse\n%s" % (t, ind(body), text if text.startswith("if ") else ind(text))
        return self.close_pre("let %s := %s in\n%s" % (sw.text, emb(e, "N", False), wrap(text)))

    def st_BreakStmt(self, s, k):
        if not self.breaks:
            bad(s, "break outside switch / loop")
        return self.breaks[-1]()

    def st_ContinueStmt(self, s, k):
        if not self.loops or self.breaks[-1] is not self.loops[-1]["brk"]:
            bad(s, "continue outside a loop (or inside a switch inside a loop)")
        return self.loops[-1]["cont"]()

    def st_DoStmt(self, s, k):
        body, c = kids(s)
        c = strip_parens(c)
        if not (c.get("kind") == "IntegerLiteral" and c["value"] == "0"):
            bad(s, "do-while loop other than do { } while (0)")
        if contains(body, ("BreakStmt", "ContinueStmt"), LOOPS + ("SwitchStmt",)):
            bad(s, "break / continue inside do { } while (0)")
        return self.st(body, k)

    # ---- loops: a Fixpoint on fuel, emitted before the function
    def st_WhileStmt(self, s, k):
        cnd, body = [c for c in kids(s) if c]
        return self.loop(s, cnd, body, None, k)

    def st_ForStmt(self, s, k):
        init, cvar, cnd, inc, body = kids(s)
        if cvar:
            bad(s, "declaration in a for condition")
        saved = dict(self.env)

        def k2():
            self.env = dict(saved)
            return k()
        go = lambda: self.loop(s, cnd or None, body, inc or None, k2)
        return self.st(init, go) if init else go()

    def loop(self, s, cnd, body, inc, k):
        self.need("fuel")
        self.need("monadic")
        self.nloop += 1
        lname = "%s'loop%d" % (self.name, self.nloop)
        parts = [x for x in (cnd, body, inc) if x]
        has_ret = any(x.get("kind") == "ReturnStmt" for p in parts for x in walk(p))
        m, r = set(), set()
        for p in parts:
            self.mods(p, m)
            r |= self.refs(p)
        if self.flags["uses_mem"]:
            r.add("mem'")
        params = [v for v in self.env.values() if (v.name in m or v.name in r) and v.bound]
        carried = [v for v in params if v.name in m]
        cnames = [v.name for v in carried]
        ctype = " * ".join(v.coq() for v in carried) or "unit"
        rtype = "ctl (%s) (%s)" % (ctype, self.result_type()) if has_ret else ctype
        exit_text = "Ok (Next %s)" % tuple_text(cnames) if has_ret else "Ok %s" % tuple_text(cnames)
        rec = " ".join([lname, "fuel'"] + [v.name for v in params])
        env0 = dict(self.env)
        brk = lambda: exit_text
        cont = (lambda: self.st(inc, lambda: rec)) if inc else (lambda: rec)
        brk.small = True
        cont.small = not inc
        self.loops.append({"ret": has_ret, "cont": cont, "brk": brk})
        self.breaks.append(brk)
        self.open_pre()
        if cnd:
            self.top(cnd)
            cc = self.cond(cnd)
            text = "if %s then\n%s\nelse %s" % (emb(cc, "N", False), ind(self.st(body, cont)), exit_text)
        else:
            text = self.st(body, cont)
        text = self.close_pre(text)
        self.breaks.pop()
        self.loops.pop()
        self.env = env0
        self.aux.append("Fixpoint %s (fuel' : nat) %s {struct fuel'} : res (%s) :=\n  match fuel' with\n"
                        "  | O => Fault Out_of_fuel\n  | S fuel' =>\n%s\n  end." % (
                            lname, " ".join("(%s : %s)" % (v.name, v.coq()) for v in params), rtype, ind(text, 4)))
        call = " ".join([lname, "fuel'"] + [v.name for v in params])
        if not has_ret:
            return "bind (%s) (fun %s =>\n%s)" % (call, pat_text(cnames), k())
        pat = "Next %s" % (tuple_text(cnames) if cnames else "_")
        return "bind (%s) (fun r' =>\n  match r' with\n  | %s =>\n%s\n  | Ret v' => %s\n  end)" % (
            call, pat, ind(k(), 4), "Ok (Ret v')" if self.loops else "Ok v'")

    # ---- the whole function
    def body_text(self):
        body = [c for c in kids(self.decl) if c.get("kind") == "CompoundStmt"][0]
        if self.ret.kind == "void":
            end = lambda: self.wrap_ok(tuple_text(self.result_parts(None)))
        else:
            end = lambda: self.fault("Fell_off_end")
        return self.st_CompoundStmt(body, end)

    def doc(self):
        src = self.decl["type"]["qualType"]
        return "(* C: %s, type %s *)" % (self.name, src.replace("(*", "( *").replace("*)", "* )"))

    def translate(self):
        while True:
            self.env = {"mem'": Var("mem'", "mem", None)}
            for v in self.params:
                self.env[v.name] = v
            self.pre, self.aux, self.dropped, self.loops, self.breaks = [], [], [], [], []
            self.ntmp = self.njoin = self.nsw = self.nloop = 0
            self.top_call, self.uses = None, {}
            try:
                text = self.body_text()
                break
            except Retry:
                continue
        ps = (["(fuel' : nat)"] if self.flags["fuel"] else []) + (["(mem' : list N)"] if self.flags["uses_mem"] else [])
        ps += ["(%s : %s)" % (v.name, v.coq()) for v in self.params]
        rt = self.result_type()
        rt = "res (%s)" % rt if self.flags["monadic"] else rt
        doc = self.doc()
        if self.dropped:
            doc += "\n(* logging dropped: %s *)" % "; ".join(
                '"%s"' % d.replace("(*", "( *").replace("*)", "* )") for d in self.dropped)
        out = self.aux + ["%s\nDefinition %s %s : %s :=\n%s." % (doc, self.name, " ".join(ps), rt, ind(text))]
        return "\n\n".join(out)


class Fragment(Fn):
    """A run of consecutive statements of one block of a C function (chosen by the source text its
    first and last statement start with), as a function of the variables it uses.  Result: the
    named output variables, then every variable declared outside the run that it may change."""
    def __init__(self, mod, name, fname, first, last, outputs):
        self.mod, self.tu, self.name, self.fname = mod, mod.tu, name, fname
        if fname not in mod.tu.funcs:
            raise Unsupported("fragment %s: no function %s" % (name, fname))
        self.decl = mod.tu.funcs[fname]
        self.first, self.last, self.outputs = first, last, outputs
        self.flags = {"monadic": False, "uses_mem": False, "writes_mem": False, "fuel": False}
        self.ret = Ty("void")
        self.stmts = self.locate()
        if any(x.get("kind") in ("ReturnStmt", "GotoStmt", "LabelStmt") for st in self.stmts for x in walk(st)):
            raise Unsupported("fragment %s contains return / goto" % name)
        for st in self.stmts:
            if contains({"inner": [st]}, ("BreakStmt", "ContinueStmt"), LOOPS + ("SwitchStmt",)):
                raise Unsupported("fragment %s: break / continue leaving the fragment" % name)
        decls = {}
        for x in walk(self.decl):
            if x.get("kind") in ("ParmVarDecl", "VarDecl") and "name" in x:
                decls.setdefault(x["name"], []).append(x)
        inner = {x["name"] for st in self.stmts for x in walk(st) if x.get("kind") == "VarDecl"}
        free = set()
        for st in self.stmts:
            free |= {r for r in self.refs(st) if r not in inner and r in decls}
        self.params = []
        for n, ds in decls.items():                 # declaration order
            if n in free:
                if len(ds) != 1:
                    raise Unsupported("fragment %s: %s is declared more than once in %s" % (name, n, fname))
                self.params.append(self.classify(ds[0]))
        self.outs = []

    def src_offset(self, n, end=False):
        r = n.get("range", {}).get("end" if end else "begin", {})
        r = r.get("expansionLoc", r)
        return r.get("offset", -1) + (r.get("tokLen", 0) if end else 0)

    def locate(self):
        text = self.mod.source_text()
        for blk in walk(self.decl):
            if blk.get("kind") != "CompoundStmt":
                continue
            ks = kids(blk)
            starts = [text[self.src_offset(c):].lstrip().startswith(self.first) for c in ks]
            if any(starts):
                i = starts.index(True)
                for j in range(i, len(ks)):
                    if text[self.src_offset(ks[j]):].lstrip().startswith(self.last):
                        return ks[i:j + 1]
                raise Unsupported("fragment %s: no statement starting with %r after the first" % (self.name, self.last))
        raise Unsupported("fragment %s: no statement of %s starts with %r" % (self.name, self.fname, self.first))

    def body_text(self):
        m = self.mods({"inner": self.stmts})
        changed = [v.name for v in self.params if v.name in m and v.name not in self.outputs]

        def end():
            names = list(self.outputs) + changed
            for n in names:
                if n not in self.env:
                    raise Unsupported("fragment %s: output %s is not in scope at its end" % (self.name, n))
            self.out_vars = [self.env[n] for n in names]
            return self.wrap_ok(tuple_text(names + (["mem'"] if self.flags["writes_mem"] else [])))
        return self.seq(self.stmts, 0, end)

    def result_type(self):
        parts = [v.coq() for v in self.out_vars] + (["list N"] if self.flags["writes_mem"] else [])
        return " * ".join(parts) if parts else "unit"

    def doc(self):
        q = lambda t: t.replace("(*", "( *").replace("*)", "* )")
        return "(* C: fragment of %s: the statements from `%s` to `%s`;\n   result: %s *)" % (
            self.fname, q(self.first), q(self.last), ", ".join(v.name for v in self.out_vars))


# ----------------------------------------------------------------------------- one output file
class Module:
    def __init__(self, modname, src, entries):
        self.modname, self.src, self.entries = modname, src, entries
        self.tu = TU(os.path.join(REPO, src))
        SOURCE["text"] = self.source_text()
        self.fns, self.order, self.busy = {}, [], set()
        self.records, self.globals_used, self.global_text = [], [], {}

    def source_text(self):
        with open(os.path.join(REPO, self.src), "rb") as f:       # clang offsets are byte offsets
            return f.read().decode("latin-1")

    def fragment(self, name, fname, first, last, outputs):
        f = Fragment(self, name, fname, first, last, outputs)
        try:
            f.text = f.translate()
        except Unsupported as e:
            raise Unsupported("in fragment %s: %s" % (name, e))
        self.fns[name] = f
        self.order.append(name)

    def fn(self, name, node):
        if name in self.fns:
            return self.fns[name]
        if name in self.busy:
            bad(node, "recursive call of %s" % name)
        if name not in self.tu.funcs:
            bad(node, "call of %s (no body in this translation unit, not a supported library function)" % name)
        self.busy.add(name)
        f = Fn(self, self.tu.funcs[name])
        try:
            f.text = f.translate()
        except Unsupported as e:
            raise Unsupported("in %s: %s" % (name, e))
        self.busy.discard(name)
        self.fns[name] = f
        self.order.append(name)
        return f

    # -- structs
    def need_record(self, sname):
        if sname not in self.records:
            if sname not in self.tu.records:
                raise Unsupported("struct %s has no complete definition" % sname)
            self.records.append(sname)

    def fields(self, sname):
        """[(name, Gallina type or None when the field type is not modelled)]"""
        out = []
        for f in kids(self.tu.records[sname]):
            if f.get("kind") != "FieldDecl":
                continue
            if f.get("isBitfield"):
                out.append((f["name"], None))
                continue
            ty = node_type(f)
            out.append((f["name"], ty.coq() if ty.kind == "int" else "ptr" if ty.kind == "ptr" else None))
        return out

    def proj(self, sname, field, node):
        self.need_record(sname)
        if dict(self.fields(sname)).get(field) is None:
            bad(node, "field %s.%s has a type that is not modelled" % (sname, field))
        return "%s_%s" % (sname, field)

    def setter(self, sname, field, node):
        self.proj(sname, field, node)
        return "set_%s_%s" % (sname, field)

    def record_text(self, sname):
        fs = self.fields(sname)
        keep = [(f, t) for f, t in fs if t]
        lines = ["(* struct %s%s *)" % (sname, "".join("; field %s not modelled" % f for f, t in fs if not t))]
        lines.append("Record %s := mk_%s {\n%s\n}." % (
            sname, sname, ";\n".join("  %s_%s : %s" % (sname, f, t) for f, t in keep)))
        for f, t in keep:
            args = " ".join("v'" if g == f else "s'.(%s_%s)" % (sname, g) for g, _ in keep)
            lines.append("Definition set_%s_%s (s' : %s) (v' : %s) : %s :=\n  mk_%s %s." % (
                sname, f, sname, t, sname, sname, args))
        return "\n".join(lines)

    # -- global constants
    def need_global(self, name, node):
        if name in self.global_text:
            return name
        d = self.tu.globals[name]
        ty = node_type(d)
        init = [c for c in kids(d) if "Comment" not in c.get("kind", "")]
        if not (ty.kind == "struct" and ty.const and init and init[0].get("kind") == "InitListExpr"):
            bad(node, "global %s is not a const struct with an initialiser" % name)
        self.need_record(ty.name)
        f = Fn.__new__(Fn)                      # expression translator without a function
        f.mod, f.tu, f.env, f.pre, f.flags = self, self.tu, {}, [[]], {"monadic": True}
        vals = []
        for (fname, ft), c in zip(self.fields(ty.name), kids(init[0])):
            if ft is None:
                continue
            if c.get("kind") == "ImplicitValueInitExpr":
                vals.append("Null" if ft == "ptr" else "0")
            else:
                vals.append(emb(f.ex(c), "?"))
        if f.pre != [[]]:
            bad(node, "initialiser of %s is not a plain constant" % name)
        self.global_text[name] = "Definition %s : %s :=\n  mk_%s %s." % (name, ty.name, ty.name, " ".join(vals))
        self.globals_used.append(name)
        return name

    def global_array(self, base, fn):
        """(name, element type) when base is a global const integer array"""
        b = strip_parens(base)
        while b.get("kind") == "ImplicitCastExpr" and b["castKind"] in ("ArrayToPointerDecay", "NoOp"):
            b = strip_parens(kids(b)[0])
        if b.get("kind") != "DeclRefExpr" or b["referencedDecl"]["kind"] != "VarDecl":
            return None
        name = b["referencedDecl"]["name"]
        if name in fn.env or name not in self.tu.globals:
            return None
        d = self.tu.globals[name]
        q = d["type"]["qualType"]
        if "[" not in q or "const" not in q.split("[")[0].split():
            bad(base, "global array %s is not const" % name)
        ety = parse_type(q.split("[")[0])
        init = [c for c in kids(d) if c.get("kind") == "InitListExpr"]
        if ety.kind != "int" or not init:
            bad(base, "global array %s" % name)
        if name not in self.global_text:
            vals = []
            for c in kids(init[0]):
                c = strip_parens(c)
                while c.get("kind") == "ImplicitCastExpr":
                    c = strip_parens(kids(c)[0])
                if c.get("kind") != "IntegerLiteral":
                    bad(c, "array initialiser element")
                v = int(c["value"])
                vals.append(str(v % (1 << ety.bits)) if not ety.signed else "(%d)" % v)
            want = int(q.split("[")[1].split("]")[0])
            if len(vals) != want:
                bad(base, "array %s: %d initialisers for %d elements" % (name, len(vals), want))
            rows = [";".join(vals[i:i + 8]) for i in range(0, len(vals), 8)]
            self.global_text[name] = "Definition %s : list %s := [\n  %s]%s." % (
                name, ety.coq(), ";\n  ".join(rows), "%Z" if ety.signed else "")
            self.globals_used.append(name)
        return name, ety

    def emit(self):
        for e in self.entries:
            if isinstance(e, tuple):
                self.fragment(*e)
            else:
                self.fn(e, {"kind": "entry %s" % e})
        out = ["(* GENERATED by tools/c2gallina.py from %s - do not edit.\n"
               "   One Gallina definition per C function, statement by statement; the meaning of the helper\n"
               "   names (res, bind, u32, sint, ptr, load8, store8 ...) is fixed in GenLib.v.\n"
               "   Assumptions: `struct T *` / `uintN_t *` parameters are valid and do not alias (they are the\n"
               "   record / value passed in and returned); every `uint8_t *` of a function points into the one\n"
               "   byte array mem'; fuel' bounds the iterations of every loop (Fault Out_of_fuel beyond).\n"
               "   Functions: %s. *)" % (self.src, ", ".join(self.order)),
               "From Coq Require Import NArith ZArith List Bool.\nFrom JLS Require Import GenLib.\n"
               "Import ListNotations.\nLocal Open Scope N_scope."]
        out += [self.record_text(r) for r in self.records]
        out += [self.global_text[g] for g in self.globals_used]
        out += [self.fns[f].text for f in self.order]
        return "\n\n".join(out) + "\n"


def main(argv):
    outdir, only = os.path.join(VERIF, "coq"), None
    i = 0
    while i < len(argv):
        if argv[i] == "--out":
            outdir = argv[i + 1]
            i += 2
        elif argv[i] == "--only":
            only = argv[i + 1].split(",")
            i += 2
        else:
            sys.stderr.write(__doc__)
            return 2
    status = 0
    for modname, (src, entries) in FILES.items():
        if only and modname not in only:
            continue
        try:
            text = Module(modname, src, entries).emit()
        except Unsupported as e:
            # the previous generated file (if any) is left as it is; exit status 3 = "the translator no
            # longer fits the source" (the tie is broken), the same convention as gen_constants.py
            sys.stderr.write("c2gallina: %s (%s): UNSUPPORTED: %s\n" % (modname, src, e))
            status = 3
            continue
        path = os.path.join(outdir, modname + ".v")
        old = open(path).read() if os.path.exists(path) else None
        if old != text:
            with open(path, "w") as f:
                f.write(text)
            print("c2gallina: wrote %s (sha %s)" % (path, hashlib.sha1(text.encode()).hexdigest()[:12]))
        else:
            print("c2gallina: %s unchanged" % path)
    return status


if __name__ == "__main__":
    sys.exit(main(sys.argv[1:]))
