#!/usr/bin/env python3
"""prints the markdown table of /verif/seeded/*/meta.json for DESIGN.md section 14"""
import json, glob
print("| seeded | property | what it needs in order to manifest | caught by | what had to be strengthened |")
print("|---|---|---|---|---|")
for d in sorted(glob.glob('/verif/seeded/*/meta.json')):
    m = json.load(open(d)); tag = d.split('/')[-2]
    print("| %s | %s | %s | %s | %s |" % (tag, m.get('property', tag[:3]), m.get('needs', '').replace('|', '/'), ", ".join(m.get('caught_by', [])),
                                      (m.get('strengthened') or m.get('missed_before') or '—').replace('|', '/')))
