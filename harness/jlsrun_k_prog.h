/* kind prog: one case per input line; ops separated by ';', tokens by ' '.
 * Each case runs in a forked child (crash/hang -> "FAULT <what>" appended), with its own
 * scratch directory.  Output: one line per case, op results separated by ';'.
 * See tools/proglib.py for the script grammar (kept in sync with ocaml/drv_prog.ml).
 *
 * usage: jlsrun prog <scratch_dir> [exact]
 *   exact: caller buffers are malloc'ed to exactly the documented size (C10 runs);
 *          otherwise 16 bytes of slack are added so that the known one-byte over-read
 *          does not mask everything else under ASan.
 */
#include <stdarg.h>
#include "jls/writer.h"
#include "jls/reader.h"
#include "jls/copy.h"
#include "jls/threaded_writer.h"
#include "jls/format.h"
#include "jls/ec.h"
#include "jls/log.h"
#include <math.h>
#include <fcntl.h>
#include <sys/stat.h>
#include <sys/types.h>

/* ---------------- write log (filled by the --wrap shims in jlsrun_wrap.h) ---------------- */
struct wl_entry_s { int kind; /* 0 write 1 truncate 2 fsync */ int64_t offset; uint32_t len; uint8_t * data; };
static struct wl_entry_s * wl_ = NULL;
static size_t wl_n_ = 0, wl_cap_ = 0;
static int wl_enable_ = 0;
static int wl_fd_ = -1;        /* only this fd is logged (set at open of the tracked path) */
static char wl_path_[512];

static void wl_add(int kind, int64_t offset, const void * data, uint32_t len) {
    if (wl_n_ == wl_cap_) { wl_cap_ = wl_cap_ ? wl_cap_ * 2 : 1024; wl_ = realloc(wl_, wl_cap_ * sizeof(*wl_)); }
    wl_[wl_n_].kind = kind; wl_[wl_n_].offset = offset; wl_[wl_n_].len = len;
    wl_[wl_n_].data = NULL;
    if (len && data) { wl_[wl_n_].data = malloc(len); memcpy(wl_[wl_n_].data, data, len); }
    ++wl_n_;
}

ssize_t __real_write(int fd, const void * buf, size_t n);
off_t __real_lseek(int fd, off_t off, int whence);
int __real_ftruncate(int fd, off_t len);
int __real_fsync(int fd);
int __real_open(const char * path, int flags, ...);
int __real_close(int fd);

ssize_t __wrap_write(int fd, const void * buf, size_t n) {
    if (wl_enable_ && fd == wl_fd_) {
        off_t pos = __real_lseek(fd, 0, SEEK_CUR);
        wl_add(0, (int64_t) pos, buf, (uint32_t) n);
    }
    return __real_write(fd, buf, n);
}
off_t __wrap_lseek(int fd, off_t off, int whence) { return __real_lseek(fd, off, whence); }
int __wrap_ftruncate(int fd, off_t len) {
    if (wl_enable_ && fd == wl_fd_) wl_add(1, (int64_t) len, NULL, 0);
    return __real_ftruncate(fd, len);
}
int __wrap_fsync(int fd) {
    if (wl_enable_ && fd == wl_fd_) wl_add(2, 0, NULL, 0);
    return __real_fsync(fd);
}
int __wrap_open(const char * path, int flags, ...) {
    mode_t mode = 0;
    if (flags & O_CREAT) { va_list ap; va_start(ap, flags); mode = va_arg(ap, mode_t); va_end(ap); }
    int fd = __real_open(path, flags, mode);
    if (wl_enable_ && fd >= 0 && 0 == strcmp(path, wl_path_) && (flags & (O_RDWR | O_WRONLY))) {
        wl_fd_ = fd;
        if (flags & O_TRUNC) wl_add(1, 0, NULL, 0);
    }
    return fd;
}
int __wrap_close(int fd) {
    if (fd == wl_fd_) wl_fd_ = -1;
    return __real_close(fd);
}

/* ---------------- generators (mirrored in ocaml/drv_prog.ml) ---------------- */
static uint64_t mix64(uint64_t x) {   /* splitmix64 finalizer */
    x += 0x9E3779B97F4A7C15ULL;
    x = (x ^ (x >> 30)) * 0xBF58476D1CE4E5B9ULL;
    x = (x ^ (x >> 27)) * 0x94D049BB133111EBULL;
    return x ^ (x >> 31);
}
static uint64_t fnv64(const uint8_t * b, size_t n) {
    uint64_t h = 0xcbf29ce484222325ULL;
    for (size_t i = 0; i < n; ++i) { h ^= b[i]; h *= 0x100000001b3ULL; }
    return h;
}
static int dt_bits(uint32_t dt) { return (dt >> 8) & 0xff; }
static int dt_is_float(uint32_t dt) { return (dt & 0x0f) == 4; }
static int dt_is_signed(uint32_t dt) { return (dt & 0x0f) == 1; }

/* raw w-bit pattern of sample k of a call (pat, seed) for data type dt */
static uint64_t gen_sample(uint32_t dt, int pat, uint64_t seed, uint64_t k) {
    int w = dt_bits(dt);
    int64_t v;
    switch (pat) {
        case 0: v = (int64_t) seed; break;                              /* constant */
        case 1: v = (int64_t) (seed + k); break;                        /* ramp */
        case 3: v = (int64_t) ((k * 7 + seed) % 17); break;             /* small values */
        case 4: v = (int64_t) (mix64(seed * 1000003ULL + k) % 2001) - 1000; break;  /* +-1000 */
        default: v = (int64_t) mix64(seed * 1000003ULL + k); break;     /* 2: full-range PRNG */
    }
    if (dt_is_float(dt)) {
        /* floats carry small integers (exact in binary32/64) except pat 2: integers < 2^20 */
        int64_t iv = (pat == 2) ? (int64_t) (mix64(seed * 1000003ULL + k) % 2000001) - 1000000 :
                     ((pat == 0 || pat == 1) ? (int64_t) ((uint64_t) v % 100000) : v);
        if (w == 32) { float f = (float) iv; uint32_t u; memcpy(&u, &f, 4); return u; }
        double d = (double) iv; uint64_t u; memcpy(&u, &d, 8); return u;
    }
    if (w == 64) return (uint64_t) v;
    return ((uint64_t) v) & ((1ULL << w) - 1);
}
/* pack count samples LSB-first into exactly ceil(count*w/8) bytes (+slack) */
static uint8_t * pack_samples(uint32_t dt, int pat, uint64_t seed, uint64_t count, size_t slack, size_t * nbytes) {
    int w = dt_bits(dt);
    size_t n = (size_t) ((count * (uint64_t) w + 7) / 8);
    uint8_t * b = malloc(n + slack ? n + slack : 1);
    memset(b, 0, n + slack);
    for (uint64_t k = 0; k < count; ++k) {
        uint64_t v = gen_sample(dt, pat, seed, k);
        uint64_t bit = k * (uint64_t) w;
        if (w >= 8) { memcpy(b + bit / 8, &v, (size_t) (w / 8)); }
        else { b[bit / 8] |= (uint8_t) (v << (bit % 8)); }
    }
    *nbytes = n;
    return b;
}
/* strspec / payspec: '-' NULL ; 'e' empty ; g<len>.<seed> ; x<hex> ; n<len> NULL pointer with a claimed size of len.  Returns malloc'ed
 * buffer of exactly len (+1 NUL if nul) bytes, *len = byte count without the NUL */
static uint8_t * gen_bytes(const char * spec, int printable, int nul, size_t * len, int * is_null) {
    *is_null = 0; *len = 0;
    if (spec[0] == '-') { *is_null = 1; return NULL; }
    if (spec[0] == 'n') { *is_null = 1; *len = (size_t) strtoul(spec + 1, NULL, 10); return NULL; }
    if (spec[0] == 'e') { uint8_t * b = malloc(1); b[0] = 0; return b; }
    if (spec[0] == 'g') {
        unsigned long n = 0; unsigned long long seed = 0;
        sscanf(spec + 1, "%lu.%llu", &n, &seed);
        uint8_t * b = malloc(n + (nul ? 1 : 0) + (n + nul ? 0 : 1));
        for (unsigned long i = 0; i < n; ++i) {
            uint64_t r = mix64(seed * 7919ULL + i);
            b[i] = printable ? (uint8_t) (33 + (r % 94)) : (uint8_t) (r >> 13);
        }
        if (nul) b[n] = 0;
        *len = n;
        return b;
    }
    if (spec[0] == 'x') {
        size_t n; uint8_t * raw = hex_decode(spec + 1, &n);
        uint8_t * b = malloc(n + 1);
        memcpy(b, raw, n); b[n] = 0; free(raw);
        *len = n;
        if (!nul) { /* exact size for binary */ uint8_t * c = malloc(n ? n : 1); memcpy(c, b, n); free(b); b = c; }
        return b;
    }
    *is_null = 1;
    return NULL;
}

/* ---------------- case state ---------------- */
struct prog_s {
    struct jls_wr_s * wr;
    struct jls_twr_s * twr;
    struct jls_rd_s * rd;
    char path[512];
    char dir[400];
    int pathn;
    char paths[32][512];      /* every file created by this case, in order (op `use <i>` selects one) */
    uint32_t dtype[256];      /* data type per signal as given by the script (for buffers) */
    size_t slack;
    int first;                /* output separator state */
};
static void log_to_stdout(const char * msg) { printf("{LOG %s}", msg); }
static void out_sep(struct prog_s * p) { if (!p->first) putchar(';'); p->first = 0; }

struct cb_s { int n; int stop_after; };
static int32_t anno_cb(void * ud, const struct jls_annotation_s * a) {
    struct cb_s * c = ud;
    uint32_t yb; memcpy(&yb, &a->y, 4);
    printf(" %" PRId64 ",%u,%u,%u,%x,%u,%016" PRIx64, a->timestamp, (unsigned) a->annotation_type, (unsigned) a->storage_type,
           (unsigned) a->group_id, yb, a->data_size, fnv64(a->data, a->data_size));
    ++c->n;
    return (c->stop_after > 0 && c->n >= c->stop_after) ? 1 : 0;
}
static int32_t utc_cb(void * ud, const struct jls_utc_summary_entry_s * u, uint32_t size) {
    struct cb_s * c = ud;
    for (uint32_t i = 0; i < size; ++i) {
        printf(" %" PRId64 ",%" PRId64, u[i].sample_id, u[i].timestamp);
        ++c->n;
    }
    return (c->stop_after > 0 && c->n >= c->stop_after) ? 1 : 0;
}
static int32_t ud_cb(void * ud, uint16_t meta, enum jls_storage_type_e st, uint8_t * data, uint32_t size) {
    struct cb_s * c = ud;
    printf(" %u,%u,%u,%016" PRIx64, (unsigned) meta, (unsigned) st, size, fnv64(data, size));
    ++c->n;
    return (c->stop_after > 0 && c->n >= c->stop_after) ? 1 : 0;
}
static void print_str(const char * s) {
    if (!s) { printf("~"); return; }
    size_t n = strlen(s);
    if (n <= 24) { printf("s"); hex_print((const uint8_t *) s, n); }
    else printf("h%zu.%016" PRIx64, n, fnv64((const uint8_t *) s, n));
}
static uint8_t * read_file(const char * path, size_t * n) {
    FILE * f = fopen(path, "rb"); if (!f) { *n = 0; return NULL; }
    fseek(f, 0, SEEK_END); long sz = ftell(f); fseek(f, 0, SEEK_SET);
    uint8_t * b = malloc(sz ? sz : 1);
    *n = fread(b, 1, sz, f); fclose(f);
    return b;
}
static void write_file(const char * path, const uint8_t * b, size_t n) {
    FILE * f = fopen(path, "wb"); fwrite(b, 1, n, f); fclose(f);
}
static void new_path(struct prog_s * p, const char * tag) {
    snprintf(p->path, sizeof(p->path), "%s/f%d_%s.jls", p->dir, p->pathn, tag);
    if (p->pathn < 32) strcpy(p->paths[p->pathn], p->path);
    p->pathn++;
}

static void dump_log(struct prog_s * p, const char * outpath) {
    FILE * f = fopen(outpath, "w");
    for (size_t i = 0; i < wl_n_; ++i) {
        if (wl_[i].kind == 0) {
            fprintf(f, "w %" PRId64 " ", wl_[i].offset);
            for (uint32_t k = 0; k < wl_[i].len; ++k) fprintf(f, "%02x", wl_[i].data[k]);
            fprintf(f, "\n");
        } else if (wl_[i].kind == 1) fprintf(f, "t %" PRId64 "\n", wl_[i].offset);
        else fprintf(f, "s\n");
    }
    fclose(f);
    (void) p;
}

/* apply the first k log entries completely and j bytes of entry k (0-based) to a new file */
static void build_image(struct prog_s * p, size_t k, size_t j) {
    size_t cap = 1 << 16, len = 0;
    uint8_t * img = calloc(1, cap);
    for (size_t i = 0; i <= k && i < wl_n_; ++i) {
        struct wl_entry_s * e = &wl_[i];
        if (e->kind == 1) { if (i < k) { if ((size_t) e->offset < len) len = (size_t) e->offset; } continue; }
        if (e->kind != 0) continue;
        size_t n = (i < k) ? e->len : (j < e->len ? j : e->len);
        size_t end = (size_t) e->offset + n;
        while (end > cap) { img = realloc(img, cap * 2); memset(img + cap, 0, cap); cap *= 2; }
        if (n) memcpy(img + e->offset, e->data, n);
        if (end > len && n) len = end;
    }
    new_path(p, "img");
    write_file(p->path, img, len);
    free(img);
}

#define TOK(i) ((i) < ntok ? tok[i] : "0")
#define TOKI(i) strtoll(TOK(i), NULL, 0)
#define TOKU(i) strtoull(TOK(i), NULL, 0)

static void run_op(struct prog_s * p, char * op) {
    char * tok[40]; int ntok = 0;
    for (char * t = strtok(op, " "); t && ntok < 40; t = strtok(NULL, " ")) tok[ntok++] = t;
    if (!ntok) return;
    const char * c = tok[0];
    out_sep(p);
    printf("%s", c);
    if (!strcmp(c, "logon")) { jls_log_register(log_to_stdout); return; }
    if (!strcmp(c, "slack")) { p->slack = (size_t) TOKU(1); return; }
    if (!strcmp(c, "wopen") || !strcmp(c, "topen")) {
        new_path(p, "w");
        strncpy(wl_path_, p->path, sizeof(wl_path_) - 1);
        wl_enable_ = 1; wl_n_ = 0;
        int32_t rc = (c[0] == 'w') ? jls_wr_open(&p->wr, p->path) : jls_twr_open(&p->twr, p->path);
        printf(" %d", rc);
        return;
    }
    if (!strcmp(c, "tflags")) { printf(" %d", p->twr ? jls_twr_flags_set(p->twr, (uint32_t) TOKU(1)) : -1); return; }
    if (!strcmp(c, "src")) {
        struct jls_source_def_s s; memset(&s, 0, sizeof(s));
        s.source_id = (uint16_t) TOKU(1);
        size_t l; int nul; uint8_t * b[5];
        const char ** f[5] = {&s.name, &s.vendor, &s.model, &s.version, &s.serial_number};
        for (int i = 0; i < 5; ++i) { b[i] = gen_bytes(TOK(2 + i), 1, 1, &l, &nul); *f[i] = (const char *) b[i]; }
        int32_t rc = p->wr ? jls_wr_source_def(p->wr, &s) : (p->twr ? jls_twr_source_def(p->twr, &s) : -1);
        printf(" %d", rc);
        for (int i = 0; i < 5; ++i) free(b[i]);
        return;
    }
    if (!strcmp(c, "sig")) {
        struct jls_signal_def_s s; memset(&s, 0, sizeof(s));
        s.signal_id = (uint16_t) TOKU(1); s.source_id = (uint16_t) TOKU(2); s.signal_type = (uint8_t) TOKU(3);
        s.data_type = (uint32_t) TOKU(4); s.sample_rate = (uint32_t) TOKU(5);
        s.samples_per_data = (uint32_t) TOKU(6); s.sample_decimate_factor = (uint32_t) TOKU(7);
        s.entries_per_summary = (uint32_t) TOKU(8); s.summary_decimate_factor = (uint32_t) TOKU(9);
        s.annotation_decimate_factor = (uint32_t) TOKU(10); s.utc_decimate_factor = (uint32_t) TOKU(11);
        size_t l; int nul;
        uint8_t * n1 = gen_bytes(TOK(12), 1, 1, &l, &nul); uint8_t * n2 = gen_bytes(TOK(13), 1, 1, &l, &nul);
        s.name = (const char *) n1; s.units = (const char *) n2;
        int32_t rc = p->wr ? jls_wr_signal_def(p->wr, &s) : (p->twr ? jls_twr_signal_def(p->twr, &s) : -1);
        if (!rc && s.signal_id < 256) p->dtype[s.signal_id] = s.data_type;   /* only accepted definitions */
        printf(" %d", rc);
        free(n1); free(n2);
        return;
    }
    if (!strcmp(c, "fsr")) {
        uint16_t sig = (uint16_t) TOKU(1); int64_t sid = TOKI(2); uint64_t count = TOKU(3);
        int pat = (int) TOKI(4); uint64_t seed = TOKU(5);
        uint32_t dt = p->dtype[sig & 0xff] ? p->dtype[sig & 0xff] : JLS_DATATYPE_F32;
        size_t nb; uint8_t * b = pack_samples(dt, pat, seed, count, p->slack, &nb);
        int32_t rc = p->wr ? jls_wr_fsr(p->wr, sig, sid, b, (uint32_t) count)
                   : (p->twr ? jls_twr_fsr(p->twr, sig, sid, b, (uint32_t) count) : -1);
        printf(" %d", rc);
        free(b);
        return;
    }
    if (!strcmp(c, "omit")) {
        int32_t rc = p->wr ? jls_wr_fsr_omit_data(p->wr, (uint16_t) TOKU(1), (uint32_t) TOKU(2))
                   : (p->twr ? jls_twr_fsr_omit_data(p->twr, (uint16_t) TOKU(1), (uint32_t) TOKU(2)) : -1);
        printf(" %d", rc);
        return;
    }
    if (!strcmp(c, "anno")) {
        uint16_t sig = (uint16_t) TOKU(1); int64_t ts = TOKI(2); uint32_t yb = (uint32_t) strtoul(TOK(3), NULL, 16);
        float y; memcpy(&y, &yb, 4);
        int at = (int) TOKI(4); int grp = (int) TOKI(5); int st = (int) TOKI(6);
        size_t l; int is_null; int is_str = (st == JLS_STORAGE_TYPE_STRING || st == JLS_STORAGE_TYPE_JSON);
        uint8_t * b = gen_bytes(TOK(7), is_str, is_str, &l, &is_null);
        uint32_t sz = (uint32_t) ((is_str && !is_null) ? l + 1 : l);
        int32_t rc = p->wr ? jls_wr_annotation(p->wr, sig, ts, y, at, (uint8_t) grp, st, b, sz)
                   : (p->twr ? jls_twr_annotation(p->twr, sig, ts, y, at, (uint8_t) grp, st, b, sz) : -1);
        printf(" %d", rc);
        free(b);
        return;
    }
    if (!strcmp(c, "utc")) {
        int32_t rc = p->wr ? jls_wr_utc(p->wr, (uint16_t) TOKU(1), TOKI(2), TOKI(3))
                   : (p->twr ? jls_twr_utc(p->twr, (uint16_t) TOKU(1), TOKI(2), TOKI(3)) : -1);
        printf(" %d", rc);
        return;
    }
    if (!strcmp(c, "ud")) {
        uint16_t meta = (uint16_t) TOKU(1); int st = (int) TOKI(2);
        size_t l; int is_null; int is_str = (st == JLS_STORAGE_TYPE_STRING || st == JLS_STORAGE_TYPE_JSON);
        uint8_t * b = gen_bytes(TOK(3), is_str, is_str, &l, &is_null);
        uint32_t sz = (uint32_t) (is_str ? l + 1 : l);
        if (is_null) sz = (uint32_t) l;   /* '-': 0 ; n<len>: len */
        int32_t rc = p->wr ? jls_wr_user_data(p->wr, meta, st, b, sz)
                   : (p->twr ? jls_twr_user_data(p->twr, meta, st, b, sz) : -1);
        printf(" %d", rc);
        free(b);
        return;
    }
    if (!strcmp(c, "wflush")) { printf(" %d", p->wr ? jls_wr_flush(p->wr) : (p->twr ? jls_twr_flush(p->twr) : -1)); return; }
    if (!strcmp(c, "wclose")) {
        int32_t rc = p->wr ? jls_wr_close(p->wr) : (p->twr ? jls_twr_close(p->twr) : -1);
        p->wr = NULL; p->twr = NULL; wl_enable_ = 0;
        printf(" %d", rc);
        return;
    }
    if (!strcmp(c, "logdump")) { char lp[600]; snprintf(lp, sizeof(lp), "%s", TOK(1)); dump_log(p, lp); printf(" %zu", wl_n_); return; }
    if (!strcmp(c, "logmark")) { printf(" %zu", wl_n_); return; }
    if (!strcmp(c, "logn")) {   /* number of log entries, and their kinds/lengths */
        printf(" %zu", wl_n_);
        return;
    }
    if (!strcmp(c, "loglens")) {
        printf(" %zu", wl_n_);
        for (size_t i = 0; i < wl_n_; ++i) printf(" %d:%" PRId64 ":%u", wl_[i].kind, wl_[i].offset, wl_[i].len);
        return;
    }
    if (!strcmp(c, "image")) { build_image(p, (size_t) TOKU(1), (size_t) TOKU(2)); printf(" 0"); return; }
    if (!strcmp(c, "copy")) {
        char src[512]; strcpy(src, p->path);
        new_path(p, "copy");
        int32_t rc = jls_copy(src, p->path, NULL, NULL, NULL, NULL);
        printf(" %d", rc);
        return;
    }
    if (!strcmp(c, "use")) {
        int i = (int) TOKI(1);
        if (i >= 0 && i < p->pathn && i < 32) { strcpy(p->path, p->paths[i]); printf(" 0"); } else printf(" -1");
        return;
    }
    if (!strcmp(c, "dup")) {   /* byte copy of the current file; becomes current */
        size_t n; uint8_t * b = read_file(p->path, &n);
        new_path(p, "dup"); write_file(p->path, b, n); free(b);
        printf(" 0");
        return;
    }
    if (!strcmp(c, "flip")) {
        size_t n; uint8_t * b = read_file(p->path, &n);
        for (int i = 1; i < ntok; ++i) { uint64_t bit = TOKU(i); if (bit / 8 < n) b[bit / 8] ^= (uint8_t) (1u << (bit % 8)); }
        write_file(p->path, b, n); free(b);
        printf(" 0");
        return;
    }
    if (!strcmp(c, "zero")) {
        size_t n; uint8_t * b = read_file(p->path, &n);
        uint64_t off = TOKU(1), len = TOKU(2);
        for (uint64_t i = off; i < off + len && i < n; ++i) b[i] = (uint8_t) TOKU(3);
        write_file(p->path, b, n); free(b);
        printf(" 0");
        return;
    }
    if (!strcmp(c, "trunc")) {
        size_t n; uint8_t * b = read_file(p->path, &n);
        uint64_t len = TOKU(1);
        write_file(p->path, b, len < n ? len : n); free(b);
        printf(" 0");
        return;
    }
    if (!strcmp(c, "hash")) {
        size_t n; uint8_t * b = read_file(p->path, &n);
        printf(" %zu %016" PRIx64, n, fnv64(b, n)); free(b);
        return;
    }
    if (!strcmp(c, "save")) {   /* copy current file to the given path (for decoders) */
        size_t n; uint8_t * b = read_file(p->path, &n);
        write_file(TOK(1), b, n); free(b);
        printf(" %zu", n);
        return;
    }
    if (!strcmp(c, "ropen")) {
        int32_t rc = jls_rd_open(&p->rd, p->path);
        if (rc) p->rd = NULL;
        printf(" %d", rc);
        return;
    }
    if (!strcmp(c, "rclose")) { if (p->rd) jls_rd_close(p->rd); p->rd = NULL; printf(" 0"); return; }
    if (!p->rd) { printf(" -1"); return; }
    if (!strcmp(c, "srcs")) {
        struct jls_source_def_s * s = NULL; uint16_t n = 0;
        int32_t rc = jls_rd_sources(p->rd, &s, &n);
        printf(" %d %u", rc, (unsigned) n);
        for (uint16_t i = 0; !rc && i < n; ++i) {
            printf(" %u,", (unsigned) s[i].source_id);
            print_str(s[i].name); putchar(','); print_str(s[i].vendor); putchar(','); print_str(s[i].model); putchar(',');
            print_str(s[i].version); putchar(','); print_str(s[i].serial_number);
        }
        return;
    }
    if (!strcmp(c, "sigs") || !strcmp(c, "sigq")) {
        struct jls_signal_def_s * s = NULL; uint16_t n = 0; struct jls_signal_def_s one;
        int32_t rc;
        if (c[3] == 's') rc = jls_rd_signals(p->rd, &s, &n);
        else { rc = jls_rd_signal(p->rd, (uint16_t) TOKU(1), &one); s = &one; n = rc ? 0 : 1; }
        printf(" %d %u", rc, (unsigned) n);
        for (uint16_t i = 0; !rc && i < n; ++i) {
            printf(" %u,%u,%u,%u,%u,%u,%u,%u,%u,%u,%u,%" PRId64 ",", (unsigned) s[i].signal_id, (unsigned) s[i].source_id,
                   (unsigned) s[i].signal_type, s[i].data_type, s[i].sample_rate, s[i].samples_per_data,
                   s[i].sample_decimate_factor, s[i].entries_per_summary, s[i].summary_decimate_factor,
                   s[i].annotation_decimate_factor, s[i].utc_decimate_factor, s[i].sample_id_offset);
            print_str(s[i].name); putchar(','); print_str(s[i].units);
        }
        return;
    }
    if (!strcmp(c, "len")) {
        int64_t n = -1; int32_t rc = jls_rd_fsr_length(p->rd, (uint16_t) TOKU(1), &n);
        printf(" %d %" PRId64, rc, rc ? 0 : n);
        return;
    }
    if (!strcmp(c, "rd") || !strcmp(c, "rdn")) {
        uint16_t sig = (uint16_t) TOKU(1); int64_t start = TOKI(2); int64_t count = TOKI(3);
        uint32_t dt = p->dtype[sig & 0xff];
        if (!dt) { struct jls_signal_def_s d; if (0 == jls_rd_signal(p->rd, sig, &d)) dt = d.data_type; else dt = JLS_DATATYPE_F32; }
        int w = dt_bits(dt);
        size_t nb = count > 0 ? (size_t) (((uint64_t) count * w + 7) / 8) : 0;
        if (count > (1LL << 26)) nb = 16;   /* absurd request: must be rejected before the buffer is touched (ASan tells otherwise) */
        /* documented size; the library may use up to one extra byte internally for sub-byte types: not allowed */
        uint8_t * b = malloc(nb + p->slack + 1);
        memset(b, 0xA5, nb + p->slack + 1);
        int32_t rc = jls_rd_fsr(p->rd, sig, start, b, count);
        if (!rc && nb) {
            int rem = (int) (((uint64_t) count * w) % 8);
            if (rem) b[nb - 1] &= (uint8_t) ((1u << rem) - 1);     /* bits past the window are unspecified */
            if (c[2] == 'n') {
                printf(" 0 %zu", nb);      /* rdn: only the result code and size (content unspecified) */
            } else {
                printf(" 0 %zu %016" PRIx64 " ", nb, fnv64(b, nb));
                hex_print(b, nb < 24 ? nb : 24);
            }
            if (!p->slack && b[nb] != 0xA5) printf(" OVERRUN");
        } else printf(" %d", rc);
        free(b);
        return;
    }
    if (!strcmp(c, "rdall")) {   /* whole signal: rc len hash(first len*w bits) */
        uint16_t sig = (uint16_t) TOKU(1);
        int64_t n = -1; int32_t rc = jls_rd_fsr_length(p->rd, sig, &n);
        if (rc) { printf(" %d", rc); return; }
        struct jls_signal_def_s d; uint32_t dt = JLS_DATATYPE_F32;
        if (0 == jls_rd_signal(p->rd, sig, &d)) dt = d.data_type;
        int w = dt_bits(dt);
        size_t nb = n > 0 ? (size_t) (((uint64_t) n * w + 7) / 8) : 0;
        uint8_t * b = malloc(nb + 16);
        memset(b, 0, nb + 16);
        rc = n > 0 ? jls_rd_fsr(p->rd, sig, 0, b, n) : 0;
        if (!rc && nb) { int rem = (int) (((uint64_t) n * w) % 8); if (rem) b[nb - 1] &= (uint8_t) ((1u << rem) - 1); }
        if (rc) printf(" %d %" PRId64, rc, n); else printf(" 0 %" PRId64 " %016" PRIx64, n, fnv64(b, nb));
        free(b);
        return;
    }
    if (!strcmp(c, "stall")) {   /* statistics over the whole readable signal: start 0, given increment, count = len / incr */
        uint16_t sig = (uint16_t) TOKU(1); int64_t incr = TOKI(2);
        int64_t n = -1; int32_t rc = jls_rd_fsr_length(p->rd, sig, &n);
        if (rc || incr <= 0) { printf(" %d", rc ? rc : -1); return; }
        int64_t count = n / incr;
        if (count > 4096) count = 4096;
        if (count < 1) { printf(" 0 %" PRId64 " 0", n); return; }
        double * d = malloc((size_t) count * 4 * sizeof(double));
        rc = jls_rd_fsr_statistics(p->rd, sig, 0, incr, d, count);
        printf(" %d %" PRId64 " %" PRId64, rc, n, count);
        for (int64_t i = 0; !rc && i < count * 4; ++i) { uint64_t u; memcpy(&u, &d[i], 8); printf(" %016" PRIx64, u); }
        free(d);
        return;
    }
    if (!strcmp(c, "st")) {
        uint16_t sig = (uint16_t) TOKU(1); int64_t start = TOKI(2), incr = TOKI(3), count = TOKI(4);
        size_t n = count > 0 ? (size_t) count * 4 : 0;
        if (count > (1LL << 22)) n = 4;
        double * d = malloc((n + 1) * sizeof(double));
        for (size_t i = 0; i < n; ++i) d[i] = -12345.0;
        int32_t rc = jls_rd_fsr_statistics(p->rd, sig, start, incr, d, count);
        printf(" %d", rc);
        for (size_t i = 0; !rc && i < n; ++i) { uint64_t u; memcpy(&u, &d[i], 8); printf(" %016" PRIx64, u); }
        free(d);
        return;
    }
    if (!strcmp(c, "an") || !strcmp(c, "ut") || !strcmp(c, "udr")) {
        struct cb_s cb = {0, 0};
        long pos = ftell(stdout); (void) pos;
        int32_t rc;
        /* items are printed by the callbacks; print rc after, so emit marker first */
        printf(" [");
        if (c[0] == 'a') { cb.stop_after = (int) TOKI(3); rc = jls_rd_annotations(p->rd, (uint16_t) TOKU(1), TOKI(2), anno_cb, &cb); }
        else if (c[1] == 't') { cb.stop_after = (int) TOKI(3); rc = jls_rd_utc(p->rd, (uint16_t) TOKU(1), TOKI(2), utc_cb, &cb); }
        else { cb.stop_after = (int) TOKI(1); rc = jls_rd_user_data(p->rd, ud_cb, &cb); }
        printf(" ] %d %d", rc, cb.n);
        return;
    }
    if (!strcmp(c, "s2t")) { int64_t t = 0; int32_t rc = jls_rd_sample_id_to_timestamp(p->rd, (uint16_t) TOKU(1), TOKI(2), &t); printf(" %d %" PRId64, rc, rc ? 0 : t); return; }
    if (!strcmp(c, "t2s")) { int64_t t = 0; int32_t rc = jls_rd_timestamp_to_sample_id(p->rd, (uint16_t) TOKU(1), TOKI(2), &t); printf(" %d %" PRId64, rc, rc ? 0 : t); return; }
    printf(" ?");
}

static void run_case(char * line, const char * scratch, size_t slack, unsigned timeout_s) {
    fflush(stdout);
    int pfd[2];
    if (pipe(pfd)) { printf("FAULT PIPE\n"); return; }
    pid_t pid = fork();
    if (pid == 0) {
        __real_close(pfd[0]);
        dup2(pfd[1], 1);
        if (!getenv("JLSRUN_STDERR")) {
            int devnull = __real_open("/dev/null", O_WRONLY);
            dup2(devnull, 2);
        }
        alarm(timeout_s);
        struct prog_s p; memset(&p, 0, sizeof(p));
        p.first = 1; p.slack = slack;
        snprintf(p.dir, sizeof(p.dir), "%s/c%d", scratch, (int) getpid());
        mkdir(p.dir, 0700);
        char * save = NULL;
        /* split on ';' without strtok (run_op uses strtok) */
        char * s = line;
        while (s && *s) {
            char * e = strchr(s, ';');
            if (e) *e = 0;
            run_op(&p, s);
            fflush(stdout);
            s = e ? e + 1 : NULL;
        }
        (void) save;
        if (p.rd) jls_rd_close(p.rd);
        if (p.wr) jls_wr_close(p.wr);
        fflush(stdout);
        /* remove scratch files */
        char cmd[600]; snprintf(cmd, sizeof(cmd), "rm -rf '%s'", p.dir);
        if (system(cmd)) {}
        exit(0);    /* runs LSan at exit in the asan build */
    }
    __real_close(pfd[1]);
    char buf[65536]; ssize_t n;
    while ((n = read(pfd[0], buf, sizeof(buf))) > 0) fwrite(buf, 1, (size_t) n, stdout);
    __real_close(pfd[0]);
    int status = 0;
    waitpid(pid, &status, 0);
    if (WIFSIGNALED(status)) {
        int sg = WTERMSIG(status);
        printf(";FAULT %s", sg == SIGALRM ? "TIMEOUT" : sg == SIGSEGV ? "SIGSEGV" : sg == SIGFPE ? "SIGFPE" : sg == SIGABRT ? "SIGABRT" : sg == SIGBUS ? "SIGBUS" : "SIGNAL");
        char cmd[600]; snprintf(cmd, sizeof(cmd), "rm -rf '%s/c%d'", scratch, (int) pid);
        if (system(cmd)) {}
    } else if (WIFEXITED(status) && WEXITSTATUS(status) == 99) {
        printf(";FAULT ASAN");
        char cmd[600]; snprintf(cmd, sizeof(cmd), "rm -rf '%s/c%d'", scratch, (int) pid);
        if (system(cmd)) {}
    } else if (WIFEXITED(status) && WEXITSTATUS(status) != 0) {
        printf(";FAULT EXIT%d", WEXITSTATUS(status));
    }
    printf("\n");
    fflush(stdout);
}

KIND(prog) {
    const char * scratch = argc > 0 ? argv[0] : "/tmp";
    size_t slack = 16;
    unsigned timeout_s = 20;
    for (int i = 1; i < argc; ++i) {
        if (!strcmp(argv[i], "exact")) slack = 0;
        if (!strncmp(argv[i], "timeout=", 8)) timeout_s = (unsigned) atoi(argv[i] + 8);
    }
    char * line;
    while ((line = read_line())) {
        run_case(line, scratch, slack, timeout_s);
        free(line);
    }
    return 0;
}
