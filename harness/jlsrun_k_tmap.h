/* kind tmap: jls_tmap_* of /repo/src/tmap.c (linked from libjls.a, nothing included textually).
 *
 * script lines (tokens separated by blanks; int64 values are signed hex: 1f, -a0):
 *   consts
 *       prints the C values of the constants the model defines locally.
 *   <rnum> <rsh> { G <n> <seed> <id0> <t0> <dmin> <dspan> <tnum> <tden> <jspan> <tadd>
 *               | E <n> <id> <utc> ... } ... Q { s<id> | t<time> } ...
 *       sample_rate = rnum / 2^rsh (rnum signed hex, rsh decimal; exact in double).
 *       G: n generated adds (n, seed decimal, the rest hex): first (id0, t0), then
 *          r1 = xs32, r2 = xs32, did = dmin + r1 % dspan,
 *          dtk = (did * tnum) / tden + r2 % jspan + tadd, id += did, t += dtk.
 *       E: n explicit adds.
 *       Q: queries: s<hex> = jls_tmap_sample_id_to_timestamp, t<hex> = jls_tmap_timestamp_to_sample_id.
 *   result line:  a=<g<count of nonzero rc> per G section, e<rc> per E add> then per query
 *       " <rc>:<hex value>" (value "-" when rc != 0).  The whole case runs in a forked child
 *       with stderr captured; when the child dies the line ends with " FAULT:<ASAN|UBSAN|SIG<n>|EXIT<n>|TIMEOUT>"
 *       and the remaining queries of that line are not run (the model does the same).
 */
#include "jls/tmap.h"
#include "jls/ec.h"
#include "jls/time.h"
#include "jls/format.h"
#include <math.h>
#include <sys/types.h>
#include <sys/wait.h>
#include <sys/syscall.h>
/* the harness is linked with --wrap=close,write,... (shims live in another kind); go to the
 * kernel directly so that this kind also links alone */
#define tmap_close(fd_) ((void) syscall(SYS_close, (fd_)))

static int64_t tmap_hex_i64(const char * s) {
    int neg = 0;
    if (*s == '-') { neg = 1; ++s; }
    uint64_t v = strtoull(s, NULL, 16);
    return neg ? (int64_t) (0 - v) : (int64_t) v;
}

static void tmap_print_i64(int64_t v) {
    if (v < 0) printf("-%" PRIx64, (uint64_t) 0 - (uint64_t) v);
    else printf("%" PRIx64, (uint64_t) v);
}

static char * tmap_tok(char ** p) {      /* next blank-separated token or NULL */
    char * s = *p;
    while (*s == ' ') ++s;
    if (!*s) { *p = s; return NULL; }
    char * e = s;
    while (*e && *e != ' ') ++e;
    if (*e) { *e = 0; ++e; }
    *p = e;
    return s;
}

static void tmap_child(char * line) {
    char * p = line;
    char * tk = tmap_tok(&p);
    int64_t rnum = tmap_hex_i64(tk);
    int rsh = atoi(tmap_tok(&p));
    double rate = ldexp((double) rnum, -rsh);
    struct jls_tmap_s * m = jls_tmap_alloc(rate);
    if (!m) { printf("a=NOMEM"); fflush(stdout); _exit(0); }
    printf("a=");
    tk = tmap_tok(&p);
    while (tk && tk[0] != 'Q') {
        if (tk[0] == 'G') {
            long n = atol(tmap_tok(&p));
            uint32_t s = (uint32_t) strtoul(tmap_tok(&p), NULL, 10);
            int64_t id = tmap_hex_i64(tmap_tok(&p));
            int64_t t = tmap_hex_i64(tmap_tok(&p));
            int64_t dmin = tmap_hex_i64(tmap_tok(&p));
            int64_t dspan = tmap_hex_i64(tmap_tok(&p));
            int64_t tnum = tmap_hex_i64(tmap_tok(&p));
            int64_t tden = tmap_hex_i64(tmap_tok(&p));
            int64_t jspan = tmap_hex_i64(tmap_tok(&p));
            int64_t tadd = tmap_hex_i64(tmap_tok(&p));
            if (!s) s = 1;
            long bad = 0;
            for (long i = 0; i < n; ++i) {
                if (i) {
                    uint32_t r1 = xs32(&s);
                    uint32_t r2 = xs32(&s);
                    int64_t did = dmin + (int64_t) (r1 % (uint64_t) dspan);
                    int64_t dtk = (did * tnum) / tden + (int64_t) (r2 % (uint64_t) jspan) + tadd;
                    id += did;
                    t += dtk;
                }
                if (jls_tmap_add(m, id, t)) ++bad;
            }
            printf("g%ld", bad);
        } else if (tk[0] == 'E') {
            long n = atol(tmap_tok(&p));
            for (long i = 0; i < n; ++i) {
                int64_t id = tmap_hex_i64(tmap_tok(&p));
                int64_t t = tmap_hex_i64(tmap_tok(&p));
                printf("e%d", (int) jls_tmap_add(m, id, t));
            }
        } else {
            printf("?");
            break;
        }
        tk = tmap_tok(&p);
    }
    fflush(stdout);
    if (tk && tk[0] == 'Q') {
        while ((tk = tmap_tok(&p))) {
            int64_t v = tmap_hex_i64(tk + 1);
            int64_t out = 0;
            int32_t rc;
            if (tk[0] == 's') rc = jls_tmap_sample_id_to_timestamp(m, v, &out);
            else rc = jls_tmap_timestamp_to_sample_id(m, v, &out);
            printf(" %d:", (int) rc);
            if (rc) printf("-"); else tmap_print_i64(out);
            fflush(stdout);
        }
    }
    jls_tmap_free(m);
    fflush(stdout);
    _exit(0);
}

KIND(tmap) {
    (void) argc; (void) argv;
    char * line;
    while ((line = read_line())) {
        if (0 == strncmp(line, "consts", 6)) {
            printf("unavailable=%d param_invalid=%d second=%" PRIx64 " entry=%zu cell=%zu\n",
                   (int) JLS_ERROR_UNAVAILABLE, (int) JLS_ERROR_PARAMETER_INVALID,
                   (uint64_t) JLS_TIME_SECOND, sizeof(struct jls_utc_summary_entry_s), sizeof(int64_t));
            free(line);
            continue;
        }
        fflush(stdout);
        int ep[2];
        if (pipe(ep)) return 3;
        pid_t pid = fork();
        if (pid < 0) return 3;
        if (pid == 0) {
            tmap_close(ep[0]);
            dup2(ep[1], 2);
            tmap_close(ep[1]);
            alarm(5);
            tmap_child(line);
            _exit(0);
        }
        tmap_close(ep[1]);
        /* collect the child's stderr (sanitizer report, library log) */
        size_t cap = 4096, len = 0;
        char * err = malloc(cap);
        for (;;) {
            if (len + 1024 > cap) { cap *= 2; err = realloc(err, cap); }
            ssize_t r = read(ep[0], err + len, cap - len - 1);
            if (r < 0 && errno == EINTR) continue;
            if (r <= 0) break;
            len += (size_t) r;
        }
        err[len] = 0;
        tmap_close(ep[0]);
        int st = 0;
        while (waitpid(pid, &st, 0) < 0 && errno == EINTR) {}
        if (WIFSIGNALED(st)) {
            if (WTERMSIG(st) == SIGALRM) printf(" FAULT:TIMEOUT");
            else printf(" FAULT:SIG%d", WTERMSIG(st));
        } else if (WIFEXITED(st) && WEXITSTATUS(st) != 0) {
            if (strstr(err, "AddressSanitizer")) printf(" FAULT:ASAN");
            else if (strstr(err, "runtime error")) printf(" FAULT:UBSAN");
            else printf(" FAULT:EXIT%d", WEXITSTATUS(st));
        }
        printf("\n");
        if (getenv("JLS_TMAP_STDERR") && len) fprintf(stderr, "%s", err);
        free(err);
        free(line);
    }
    return 0;
}
