/* kind repair: the `prog` script language (jlsrun_k_prog.h, which must be included before this file: it is
 * listed first in KINDS) plus two ops that the comparison with the repair model (coq/RepairModel.v,
 * tools/props/RP.py) needs:
 *
 *   ropenlog <logpath>   jls_rd_open on the current file with the backend write log enabled for that file
 *                        (a fresh log; the writer's log is kept for later `image` ops); if the open succeeds, jls_rd_close; the log is dumped
 *                        to <logpath> in the `logdump` format.  Result: ` <rc> <number of log entries>`
 *   load <path>          copy an external file into the scratch directory; it becomes the current file
 *
 * usage: jlsrun repair <scratch_dir> [timeout=<s>]
 * Everything else (fork per case, FAULT reporting, the other ops) is the prog kind's. */
static void rp_run_op(struct prog_s * p, char * op) {
    while (*op == ' ') ++op;
    if (0 == strncmp(op, "ropenlog", 8) && (op[8] == ' ' || op[8] == 0)) {
        const char * lp = op + 8;
        while (*lp == ' ') ++lp;
        out_sep(p);
        printf("ropenlog");
        /* the writer's log stays available for later `image` ops: the open is logged into a fresh log */
        struct wl_entry_s * keep = wl_; size_t keep_n = wl_n_, keep_cap = wl_cap_;
        char keep_path[512]; memcpy(keep_path, wl_path_, sizeof(keep_path));
        wl_ = NULL; wl_n_ = 0; wl_cap_ = 0;
        memset(wl_path_, 0, sizeof(wl_path_));
        strncpy(wl_path_, p->path, sizeof(wl_path_) - 1);
        wl_fd_ = -1; wl_enable_ = 1;
        struct jls_rd_s * rd = NULL;
        int32_t rc = jls_rd_open(&rd, p->path);
        if (!rc && rd) jls_rd_close(rd);
        wl_enable_ = 0;
        if (*lp) dump_log(p, lp);
        printf(" %d %zu", rc, wl_n_);
        for (size_t i = 0; i < wl_n_; ++i) free(wl_[i].data);
        free(wl_);
        wl_ = keep; wl_n_ = keep_n; wl_cap_ = keep_cap;
        memcpy(wl_path_, keep_path, sizeof(keep_path));
        return;
    }
    if (0 == strncmp(op, "load ", 5)) {
        const char * src = op + 5;
        while (*src == ' ') ++src;
        out_sep(p);
        size_t n; uint8_t * b = read_file(src, &n);
        new_path(p, "load");
        write_file(p->path, b ? b : (const uint8_t *) "", n);
        free(b);
        printf("load %zu", n);
        return;
    }
    run_op(p, op);
}

static void rp_run_case(char * line, const char * scratch, unsigned timeout_s) {
    fflush(stdout);
    int pfd[2];
    if (pipe(pfd)) { printf("FAULT PIPE\n"); return; }
    pid_t pid = fork();
    if (pid == 0) {
        __real_close(pfd[0]);
        dup2(pfd[1], 1);
        if (!getenv("JLSRUN_STDERR")) {
            int devnull = __real_open("/dev/null", O_WRONLY);
            dup2(devnull, 2);
        }
        alarm(timeout_s);
        struct prog_s p; memset(&p, 0, sizeof(p));
        p.first = 1; p.slack = 16;
        snprintf(p.dir, sizeof(p.dir), "%s/c%d", scratch, (int) getpid());
        mkdir(p.dir, 0700);
        char * s = line;
        while (s && *s) {
            char * e = strchr(s, ';');
            if (e) *e = 0;
            rp_run_op(&p, s);
            fflush(stdout);
            s = e ? e + 1 : NULL;
        }
        if (p.rd) jls_rd_close(p.rd);
        if (p.wr) jls_wr_close(p.wr);
        fflush(stdout);
        char cmd[600]; snprintf(cmd, sizeof(cmd), "rm -rf '%s'", p.dir);
        if (system(cmd)) {}
        exit(0);
    }
    __real_close(pfd[1]);
    char buf[65536]; ssize_t n;
    while ((n = read(pfd[0], buf, sizeof(buf))) > 0) fwrite(buf, 1, (size_t) n, stdout);
    __real_close(pfd[0]);
    int status = 0;
    waitpid(pid, &status, 0);
    if (WIFSIGNALED(status)) {
        int sg = WTERMSIG(status);
        printf(";FAULT %s", sg == SIGALRM ? "TIMEOUT" : sg == SIGSEGV ? "SIGSEGV" : sg == SIGFPE ? "SIGFPE" : sg == SIGABRT ? "SIGABRT" : sg == SIGBUS ? "SIGBUS" : "SIGNAL");
        char cmd[600]; snprintf(cmd, sizeof(cmd), "rm -rf '%s/c%d'", scratch, (int) pid);
        if (system(cmd)) {}
    } else if (WIFEXITED(status) && WEXITSTATUS(status) == 99) {
        printf(";FAULT ASAN");
        char cmd[600]; snprintf(cmd, sizeof(cmd), "rm -rf '%s/c%d'", scratch, (int) pid);
        if (system(cmd)) {}
    } else if (WIFEXITED(status) && WEXITSTATUS(status) != 0) {
        printf(";FAULT EXIT%d", WEXITSTATUS(status));
    }
    printf("\n");
    fflush(stdout);
}

KIND(repair) {
    const char * scratch = argc > 0 ? argv[0] : "/tmp";
    unsigned timeout_s = 60;
    for (int i = 1; i < argc; ++i) {
        if (!strncmp(argv[i], "timeout=", 8)) timeout_s = (unsigned) atoi(argv[i] + 8);
    }
    char * line;
    while ((line = read_line())) {
        rp_run_case(line, scratch, timeout_s);
        free(line);
    }
    return 0;
}
