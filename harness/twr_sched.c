/* twrrun: deterministic scheduling harness for the threaded writer of /repo
 * (src/threaded_writer.c + src/backend_posix.c + src/msg_ring_buffer.c), properties C06/C07.
 *
 * The library objects are the ones compiled from /repo/src with
 *   -DJLS_VERIF -DJLS_VERIF_MRB_BUFFER_SIZE=<n>        (small queue hook)
 * and linked with -Wl,--wrap= for
 *   pthread_mutex_init/lock/unlock, pthread_cond_wait/signal, pthread_create/join,
 *   nanosleep, clock_gettime, open, write, fsync, ftruncate,
 *   jls_mrb_alloc, jls_mrb_peek, jls_mrb_pop (observed only; the real functions run).
 *
 * Real threads, but a baton (one global mutex + one condition per thread) lets exactly ONE
 * managed thread run between two *scheduling points*.  Scheduling points are the calls
 *   B begin of a thread        L<m> pthread_mutex_lock      U<m> pthread_mutex_unlock
 *   W pthread_cond_wait: release + sleep     R pthread_cond_wait: woken + re-acquire
 *   S pthread_cond_signal      N<ms> nanosleep: start       Z nanosleep: wake-up
 *   J pthread_join returns     H producer 0 waits for producer 1 (harness level, before close)
 *   X thread function returned
 * (m: 0 = msg_mutex, 1 = process_mutex, 2 = event mutex; numbered in pthread_mutex_init order).
 * At a scheduling point the thread publishes the pending operation and yields; the scheduler
 * picks the next thread among those whose pending operation is enabled (mutex free, signalled,
 * wake-up time reached, join target finished) from the schedule of the script, then from the
 * fall-back rule.  When the chosen thread runs it performs the operation (mutexes, condition and
 * time are emulated: virtual milliseconds) and continues to its next scheduling point.
 * Events that are not scheduling points are logged in place (lower case):
 *   g<ms> clock_gettime result     a<size>:<off|-> jls_mrb_alloc     p<off>:<size>|p- jls_mrb_peek
 *   q<off>:<size>|q- jls_mrb_pop   h<x> producer: hash of the message just copied into the queue
 *   k<x> consumer: hash of the message it holds when it takes the process lock
 *   c<i> API call i of this producer starts   r<i>=<rc> it returns
 *   o open(O_TRUNC) of the file    w<n> write   f fsync   t<n> ftruncate
 *   !M queue touched without msg_mutex   !P file I/O without process_mutex while the consumer lives
 * T<ms> = virtual time advanced (explicit schedule entry, fall-back rule, or because every
 * unfinished thread was asleep).
 *
 * usage: twrrun <scratch_dir> < script        one case per line, one result line per case
 *   <name>|<opts>|<prog0>|<prog1 or ->|<schedule>
 *   opts (space separated): seed=<n> starve=<permille> big=<permille> pri=<0|1> maxsteps=<n> save=<path>
 *   prog: ops separated by ';' :
 *     src <id> | sig <id> <src> <dtype> <spd> <sdf> <eps> <sumdf> | fsr <sig> <n> [sample_id]
 *     ann <sig> <timestamp> <len> | utc <sig> <sample_id> <utc> | ud <meta> <len> | omit <sig> <0|1>
 *     flush | flags <n> | close (producer 0, last; implied)
 *   schedule: entries separated by ','  :  <tid> | <tid>*<n> | <tid>+<n> | T<ms>
 *     <tid>*<n>: run thread tid for up to n steps (dropped as soon as it is not runnable)
 *     <tid>+<n>: same, but when tid sleeps virtual time jumps to its wake-up (others starve)
 *     thread ids: 0 producer 0, 1 producer 1, 2 consumer (jls_twr_run)
 *   fall-back when the schedule is exhausted: seed=0: keep running the current thread while it is
 *   runnable, else the lowest runnable id; seed!=0: PRNG rule (pri=1: random priorities with
 *   random priority drops, pri=0: uniform choice; `starve`: probability of jumping time to the
 *   next wake-up although something is runnable; `big`: probability that such a jump is 5001 or
 *   20001 ms).
 * After the threaded run the same binary produces the synchronous reference single-threaded with
 * jls_wr_*: the operations in the order in which they were handed to the writer (messages in
 * queue acceptance order, definitions at their process-lock position), and, for one producer,
 * also in plain submission order (`sub=`).
 */
#define _GNU_SOURCE
#include <stdio.h>
#include <stdlib.h>
#include <string.h>
#include <stdint.h>
#include <stdarg.h>
#include <inttypes.h>
#include <unistd.h>
#include <signal.h>
#include <errno.h>
#include <fcntl.h>
#include <time.h>
#include <pthread.h>
#include <sys/mman.h>
#include <sys/stat.h>
#include <sys/types.h>
#include <sys/wait.h>
#include "jls/threaded_writer.h"
#include "jls/writer.h"
#include "jls/msg_ring_buffer.h"
#include "jls/format.h"
#include "jls/ec.h"

/* ------------------------------------------------------------------ real functions */
int __real_pthread_mutex_init(pthread_mutex_t *, const pthread_mutexattr_t *);
int __real_pthread_mutex_lock(pthread_mutex_t *);
int __real_pthread_mutex_unlock(pthread_mutex_t *);
int __real_pthread_cond_wait(pthread_cond_t *, pthread_mutex_t *);
int __real_pthread_cond_signal(pthread_cond_t *);
int __real_pthread_create(pthread_t *, const pthread_attr_t *, void *(*)(void *), void *);
int __real_pthread_join(pthread_t, void **);
int __real_nanosleep(const struct timespec *, struct timespec *);
int __real_clock_gettime(clockid_t, struct timespec *);
int __real_open(const char *, int, ...);
ssize_t __real_write(int, const void *, size_t);
int __real_fsync(int);
int __real_ftruncate(int, off_t);
uint8_t * __real_jls_mrb_alloc(struct jls_mrb_s *, uint32_t);
uint8_t * __real_jls_mrb_peek(struct jls_mrb_s *, uint32_t *);
uint8_t * __real_jls_mrb_pop(struct jls_mrb_s *, uint32_t *);

/* ------------------------------------------------------------------ trace buffer (shared with the parent) */
#define TRACE_CAP (24u << 20)
struct shared_s { volatile size_t n; char buf[TRACE_CAP]; };
static struct shared_s * sh_;
static void tr(const char * fmt, ...) {
    if (sh_->n + 64 >= TRACE_CAP) return;
    va_list ap; va_start(ap, fmt);
    int k = vsnprintf(sh_->buf + sh_->n, 64, fmt, ap);
    va_end(ap);
    if (k > 0) { sh_->n += (size_t) k; sh_->buf[sh_->n++] = ' '; }
}

static uint64_t fnv64(const uint8_t * b, size_t n) {
    uint64_t h = 0xcbf29ce484222325ULL;
    for (size_t i = 0; i < n; ++i) { h ^= b[i]; h *= 0x100000001b3ULL; }
    return h;
}
static uint64_t mix64(uint64_t x) {
    x += 0x9E3779B97F4A7C15ULL;
    x = (x ^ (x >> 30)) * 0xBF58476D1CE4E5B9ULL;
    x = (x ^ (x >> 27)) * 0x94D049BB133111EBULL;
    return x ^ (x >> 31);
}

/* ------------------------------------------------------------------ programs */
enum { K_SRC, K_SIG, K_FSR, K_ANN, K_UTC, K_UD, K_OMIT, K_FLUSH, K_FLAGS, K_CLOSE };
struct call_s {
    int kind;
    int64_t a[8];
    uint8_t * data; uint32_t data_len;
    char str[4][24];       /* strings of a definition (per call: producers run concurrently) */
    int32_t rc; int done;
    int accepted;          /* times a queue allocation made during this call succeeded */
    size_t wpos; int nfsync; int napplied; uint64_t snap; int64_t t_ret;   /* at return (flush, close) */
};
#define MAXCALLS 64
struct prog_s { int n; struct call_s c[MAXCALLS]; };
static struct prog_s prog_[2];
static int nprod_ = 1;

static uint32_t dtype_of(const char * s, int * bits) {
    static const struct { const char * n; uint32_t dt; int bits; } tab[] = {
        {"f32", JLS_DATATYPE_F32, 32}, {"f64", JLS_DATATYPE_F64, 64}, {"u1", JLS_DATATYPE_U1, 1}, {"u4", JLS_DATATYPE_U4, 4},
        {"u8", JLS_DATATYPE_U8, 8}, {"u16", JLS_DATATYPE_U16, 16}, {"u32", JLS_DATATYPE_U32, 32}, {"u64", JLS_DATATYPE_U64, 64},
        {"i4", JLS_DATATYPE_I4, 4}, {"i8", JLS_DATATYPE_I8, 8}, {"i16", JLS_DATATYPE_I16, 16}, {"i32", JLS_DATATYPE_I32, 32},
        {"i64", JLS_DATATYPE_I64, 64}, {"u24", JLS_DATATYPE_U24, 24},
    };
    for (size_t i = 0; i < sizeof(tab) / sizeof(tab[0]); ++i) if (0 == strcmp(tab[i].n, s)) { *bits = tab[i].bits; return tab[i].dt; }
    *bits = 32; return JLS_DATATYPE_F32;
}

static int sig_bits_[65536];        /* script-level knowledge: bits of the last `sig` op per id (0 = never defined) */
static int64_t next_sid_[2][256];

static void gen_samples(struct call_s * c, int sig, int bits, uint32_t n, int64_t sid) {
    size_t nb = (size_t) (((uint64_t) n * (uint64_t) bits + 7) / 8);
    c->data = malloc(nb ? nb : 1);           /* exactly the documented size: ASan sees over-reads */
    c->data_len = (uint32_t) nb;
    if (bits == 32 && sig_bits_[sig] == 32 + 1000) {   /* f32 marker, see parse */
        float * f = (float *) c->data;
        for (uint32_t k = 0; k < n; ++k) f[k] = (float) ((sid + k) % 997) + (float) sig;
    } else if (bits == 64 && sig_bits_[sig] == 64 + 1000) {
        double * f = (double *) c->data;
        for (uint32_t k = 0; k < n; ++k) f[k] = (double) ((sid + k) % 997) + (double) sig;
    } else {
        for (size_t i = 0; i < nb; ++i) c->data[i] = (uint8_t) (mix64((uint64_t) sid * 131 + i + (uint64_t) sig * 7919) >> 11);
    }
}

static int parse_prog(int pi, char * s) {
    struct prog_s * p = &prog_[pi];
    p->n = 0;
    char * save1 = NULL;
    for (char * op = strtok_r(s, ";", &save1); op; op = strtok_r(NULL, ";", &save1)) {
        char * tok[12]; int nt = 0; char * save2 = NULL;
        for (char * t = strtok_r(op, " \t", &save2); t && nt < 12; t = strtok_r(NULL, " \t", &save2)) tok[nt++] = t;
        if (!nt) continue;
        if (p->n >= MAXCALLS - 1) return -1;
        struct call_s * c = &p->c[p->n];
        memset(c, 0, sizeof(*c));
        #define A(i) ((i) < nt ? strtoll(tok[i], NULL, 0) : 0)
        if (0 == strcmp(tok[0], "src")) { c->kind = K_SRC; c->a[0] = A(1); }
        else if (0 == strcmp(tok[0], "sig")) {
            int bits = 32;
            c->kind = K_SIG; c->a[0] = A(1); c->a[1] = A(2);
            c->a[2] = (int64_t) dtype_of(nt > 3 ? tok[3] : "f32", &bits);
            c->a[3] = A(4); c->a[4] = A(5); c->a[5] = A(6); c->a[6] = A(7);
            int isf = nt > 3 && tok[3][0] == 'f';
            if (!sig_bits_[(uint16_t) c->a[0]])    /* the application sizes its buffers by the first definition of an id */
                sig_bits_[(uint16_t) c->a[0]] = bits + (isf ? 1000 : 0);
        }
        else if (0 == strcmp(tok[0], "fsr")) {
            c->kind = K_FSR; c->a[0] = A(1); c->a[1] = A(2);
            int sig = (int) (uint16_t) c->a[0];
            int64_t sid = (nt > 3) ? A(3) : next_sid_[pi][sig & 255];
            c->a[2] = sid;
            next_sid_[pi][sig & 255] = sid + c->a[1];
            int bits = sig_bits_[sig] % 1000;
            if (!bits) bits = 32;     /* undefined id: the caller's buffer is sized as for f32 */
            gen_samples(c, sig, bits, (uint32_t) c->a[1], sid);
        }
        else if (0 == strcmp(tok[0], "ann")) {
            c->kind = K_ANN; c->a[0] = A(1); c->a[1] = A(2); c->a[2] = A(3);
            uint32_t n = (uint32_t) c->a[2];
            c->data = malloc(n + 1); c->data_len = n + 1;     /* string storage: size includes the NUL */
            for (uint32_t i = 0; i < n; ++i) c->data[i] = (uint8_t) ('a' + (mix64((uint64_t) c->a[1] * 31 + i) % 26));
            c->data[n] = 0;
            /* optional 5th token: which data_size the caller passes for the string (the API takes strlen + 1 for STRING/JSON storage
               whatever is passed): 0 = n + 1, 1 = 0, 2 = n (the NUL not counted), 3 = n / 2 */
            switch ((nt > 4) ? (int) A(4) : 0) {
                case 1: c->data_len = 0; break;
                case 2: c->data_len = n; break;
                case 3: c->data_len = n / 2; break;
                default: break;
            }
        }
        else if (0 == strcmp(tok[0], "utc")) { c->kind = K_UTC; c->a[0] = A(1); c->a[1] = A(2); c->a[2] = A(3); }
        else if (0 == strcmp(tok[0], "ud")) {
            c->kind = K_UD; c->a[0] = A(1); c->a[1] = A(2);
            uint32_t n = (uint32_t) c->a[1];
            c->data = malloc(n ? n : 1); c->data_len = n;
            for (uint32_t i = 0; i < n; ++i) c->data[i] = (uint8_t) (mix64((uint64_t) c->a[0] * 977 + i) >> 9);
        }
        else if (0 == strcmp(tok[0], "omit")) { c->kind = K_OMIT; c->a[0] = A(1); c->a[1] = A(2); }
        else if (0 == strcmp(tok[0], "flush")) { c->kind = K_FLUSH; }
        else if (0 == strcmp(tok[0], "flags")) { c->kind = K_FLAGS; c->a[0] = A(1); }
        else if (0 == strcmp(tok[0], "close")) { continue; }   /* implied at the end of producer 0 */
        else return -1;
        #undef A
        ++p->n;
    }
    if (pi == 0) { struct call_s * c = &p->c[p->n++]; memset(c, 0, sizeof(*c)); c->kind = K_CLOSE; }
    return 0;
}

static void fill_source(struct jls_source_def_s * s, struct call_s * c) {
    int id = (int) c->a[0];
    memset(s, 0, sizeof(*s));
    s->source_id = (uint16_t) id;
    snprintf(c->str[0], 24, "src%d", id); snprintf(c->str[1], 24, "vendor%d", id);
    snprintf(c->str[2], 24, "model%d", id); snprintf(c->str[3], 24, "v%d", id);
    s->name = c->str[0]; s->vendor = c->str[1]; s->model = c->str[2]; s->version = c->str[3];
    s->serial_number = "sn";
}
static void fill_signal(struct jls_signal_def_s * g, struct call_s * c) {
    memset(g, 0, sizeof(*g));
    g->signal_id = (uint16_t) c->a[0]; g->source_id = (uint16_t) c->a[1];
    g->signal_type = JLS_SIGNAL_TYPE_FSR; g->data_type = (uint32_t) c->a[2];
    g->sample_rate = 1000;
    g->samples_per_data = (uint32_t) c->a[3]; g->sample_decimate_factor = (uint32_t) c->a[4];
    g->entries_per_summary = (uint32_t) c->a[5]; g->summary_decimate_factor = (uint32_t) c->a[6];
    g->annotation_decimate_factor = 4; g->utc_decimate_factor = 4;
    snprintf(c->str[0], 24, "sig%d", (int) c->a[0]); snprintf(c->str[1], 24, "u%d", (int) c->a[0]);
    g->name = c->str[0]; g->units = c->str[1];
}

/* ------------------------------------------------------------------ scheduler state */
enum { OP_NONE, OP_BEGIN, OP_LOCK, OP_UNLOCK, OP_CWAIT, OP_CREACQ, OP_SIGNAL, OP_SLEEP, OP_WAKE, OP_JOIN, OP_HJOIN, OP_EXIT, OP_IO };
#define NTH 3
#define MAIN_TID 99
struct th_s {
    int used, finished, started;
    int pend, arg;
    int64_t wake;
    int signalled;
    pthread_t pt;
    pthread_cond_t cv;
    int cur_call;
    uint8_t * hash_ptr; uint32_t hash_len;    /* producer: message to hash at the next scheduling point */
    uint64_t prio;
};
static struct th_s th_[NTH];
static pthread_mutex_t g_mu_ = PTHREAD_MUTEX_INITIALIZER;
static pthread_cond_t main_cv_ = PTHREAD_COND_INITIALIZER;
static volatile int g_on_ = 0;
static volatile int g_cur_ = -1;
static int g_last_ = -1;
static __thread int my_tid_ = -1;
static int64_t now_ms_ = 0;
static long g_steps_ = 0, g_max_steps_ = 400000;
static const char * g_status_ = NULL;
static int open_done_ = 0;

static pthread_mutex_t * mtx_[8]; static int mtx_owner_[8]; static int nmtx_ = 0;
static pthread_cond_t * cond_ = NULL; static int cond_waiter_[NTH];
static void * (*consumer_fn_)(void *); static void * consumer_arg_;

struct sched_e { int kind; /* 0 tid, 1 tid starving others, 2 tick */ int tid; long n; };
static struct sched_e * sched_; static size_t sched_n_, sched_pos_;
static uint64_t rng_; static uint64_t opt_seed_; static int opt_starve_, opt_big_, opt_pri_ = 1, opt_wy_ = 0;
static char opt_save_[512];
static long chg_[8]; static int nchg_;

static uint64_t rnd(void) { rng_ ^= rng_ >> 12; rng_ ^= rng_ << 25; rng_ ^= rng_ >> 27; return rng_ * 0x2545F4914F6CDD1DULL; }

/* write/fsync log */
static char path_[600], rpath_[600], spath_[600];
static int wl_fd_ = -1;
static size_t wl_n_ = 0; static int wl_fsync_ = 0;
static int consumer_alive_ = 0;

/* accepted / applied bookkeeping */
struct acc_s { int tid, call; uint32_t off, size; };
static struct acc_s acc_[4096]; static int nacc_ = 0;
struct app_s { int is_def; int tid, call; int k; };
static struct app_s app_[8192]; static int napp_ = 0;
static int nproc_ = 0;              /* messages handed to the writer by the consumer */
static uint8_t * peek_ptr_ = NULL; static uint32_t peek_sz_ = 0;
static int chk_race_m_ = 0, chk_race_p_ = 0;

static int enabled(int t) {
    struct th_s * h = &th_[t];
    if (!h->used || h->finished || !h->started) return 0;
    switch (h->pend) {
        case OP_BEGIN: return (t == 1) ? open_done_ : 1;
        case OP_LOCK: return mtx_owner_[h->arg] < 0;
        case OP_CREACQ: return h->signalled && mtx_owner_[h->arg] < 0;
        case OP_WAKE: return now_ms_ >= h->wake;
        case OP_JOIN: return th_[h->arg].finished;
        case OP_HJOIN: return !th_[1].used || th_[1].finished;
        case OP_NONE: return 0;
        default: return 1;
    }
}

static void to_main(const char * status) {
    g_status_ = status;
    g_cur_ = MAIN_TID;
    pthread_cond_broadcast(&main_cv_);
}

static void advance(int64_t d) { now_ms_ += d; tr("T%" PRId64, d); }

/* choose the next thread; called with g_mu_ held */
static void pick_next(void) {
    for (;;) {
        int all_done = 1, R = 0, S = 0; int64_t earliest = INT64_MAX;
        for (int t = 0; t < NTH; ++t) {
            if (!th_[t].used) continue;
            if (!th_[t].finished) all_done = 0;
            if (enabled(t)) R |= 1 << t;
            else if (th_[t].started && !th_[t].finished && th_[t].pend == OP_WAKE) { S |= 1 << t; if (th_[t].wake < earliest) earliest = th_[t].wake; }
        }
        if (all_done) { to_main("OK"); return; }
        if (++g_steps_ > g_max_steps_) { to_main("LIVELOCK"); return; }
        int choose = -1;
        if (sched_pos_ < sched_n_) {
            struct sched_e * e = &sched_[sched_pos_];
            if (e->kind == 2) { ++sched_pos_; advance(e->n); continue; }
            if (e->n <= 0) { ++sched_pos_; continue; }
            if (R & (1 << e->tid)) { choose = e->tid; if (--e->n <= 0) ++sched_pos_; }
            else if (e->kind == 1 && (S & (1 << e->tid))) { advance(th_[e->tid].wake - now_ms_); continue; }
            else { ++sched_pos_; continue; }
        } else if (!R) {
            if (S) { advance(earliest - now_ms_); continue; }
            to_main("DEADLOCK"); return;
        } else if (!opt_seed_) {
            if (g_last_ >= 0 && (R & (1 << g_last_))) choose = g_last_;
            else for (int t = 0; t < NTH; ++t) if (R & (1 << t)) { choose = t; break; }
        } else {
            if (S && (int) (rnd() % 1000) < opt_starve_) {
                int64_t d = earliest - now_ms_;
                if ((int) (rnd() % 1000) < opt_big_) d = (rnd() & 1) ? 5001 : 20001;
                advance(d); continue;
            }
            if (opt_pri_) {
                for (int i = 0; i < nchg_; ++i) if (chg_[i] == g_steps_ && g_last_ >= 0) th_[g_last_].prio = rnd() % 1000;   /* drop */
                uint64_t best = 0;
                for (int t = 0; t < NTH; ++t) if ((R & (1 << t)) && (choose < 0 || th_[t].prio > best)) { choose = t; best = th_[t].prio; }
            } else {
                int k = (int) (rnd() % (uint64_t) __builtin_popcount((unsigned) R));
                for (int t = 0; t < NTH; ++t) if (R & (1 << t)) { if (!k--) { choose = t; break; } }
            }
        }
        g_cur_ = choose; g_last_ = choose;
        __real_pthread_cond_signal(&th_[choose].cv);
        return;
    }
}

/* perform the pending operation of thread t (it has the baton; g_mu_ held) */
static void perform(int t) {
    struct th_s * h = &th_[t];
    switch (h->pend) {
        case OP_BEGIN: tr("%dB", t); break;
        case OP_LOCK: mtx_owner_[h->arg] = t; tr("%dL%d", t, h->arg); break;
        case OP_UNLOCK:
            if (mtx_owner_[h->arg] != t) tr("%d!U%d", t, h->arg);
            mtx_owner_[h->arg] = -1; tr("%dU%d", t, h->arg); break;
        case OP_CWAIT: mtx_owner_[h->arg] = -1; h->signalled = 0; cond_waiter_[t] = 1; tr("%dW", t); break;
        case OP_CREACQ: mtx_owner_[h->arg] = t; cond_waiter_[t] = 0; tr("%dR", t); break;
        case OP_SIGNAL:
            for (int k = 0; k < NTH; ++k) if (cond_waiter_[k] && !th_[k].signalled) { th_[k].signalled = 1; break; }
            tr("%dS", t); break;
        case OP_SLEEP: h->wake = now_ms_ + h->arg; tr("%dN%d", t, h->arg); break;
        case OP_WAKE: tr("%dZ", t); break;
        case OP_JOIN: tr("%dJ", t); break;
        case OP_HJOIN: tr("%dH", t); break;
        default: break;
    }
    h->pend = OP_NONE;
}

static void hash_pending(int t) {
    struct th_s * h = &th_[t];
    if (h->hash_ptr) { tr("%dh%08x", t, (unsigned) (fnv64(h->hash_ptr, h->hash_len) & 0xffffffffu)); h->hash_ptr = NULL; }
}

static void yield_op(int op, int arg) {
    int t = my_tid_;
    hash_pending(t);
    __real_pthread_mutex_lock(&g_mu_);
    th_[t].pend = op; th_[t].arg = arg;
    pick_next();
    while (g_cur_ != t) __real_pthread_cond_wait(&th_[t].cv, &g_mu_);
    perform(t);
    __real_pthread_mutex_unlock(&g_mu_);
}

static int managed(void) { return g_on_ && my_tid_ >= 0; }
static int mtx_index(pthread_mutex_t * m) { for (int i = 0; i < nmtx_; ++i) if (mtx_[i] == m) return i; return -1; }

/* ------------------------------------------------------------------ wrappers */
int __wrap_pthread_mutex_init(pthread_mutex_t * m, const pthread_mutexattr_t * a) {
    if (managed() && nmtx_ < 8) { mtx_[nmtx_] = m; mtx_owner_[nmtx_] = -1; ++nmtx_; }
    return __real_pthread_mutex_init(m, a);
}
int __wrap_pthread_mutex_lock(pthread_mutex_t * m) {
    int i = managed() ? mtx_index(m) : -1;
    if (i < 0) return __real_pthread_mutex_lock(m);
    yield_op(OP_LOCK, i);
    if (i == 1) {   /* process lock taken: this is where an operation is handed to the writer */
        int t = my_tid_;
        if (t == 2) {
            if (peek_ptr_) tr("%dk%08x", t, (unsigned) (fnv64(peek_ptr_, peek_sz_) & 0xffffffffu));
            if (napp_ < 8192) { app_[napp_].is_def = 0; app_[napp_].k = nproc_; ++napp_; }
            ++nproc_;
        } else if (napp_ < 8192) {
            app_[napp_].is_def = 1; app_[napp_].tid = t; app_[napp_].call = th_[t].cur_call; ++napp_;
        }
    }
    return 0;
}
int __wrap_pthread_mutex_unlock(pthread_mutex_t * m) {
    int i = managed() ? mtx_index(m) : -1;
    if (i < 0) return __real_pthread_mutex_unlock(m);
    yield_op(OP_UNLOCK, i);
    return 0;
}
int __wrap_pthread_cond_wait(pthread_cond_t * c, pthread_mutex_t * m) {
    int i = managed() ? mtx_index(m) : -1;
    if (i < 0) return __real_pthread_cond_wait(c, m);
    cond_ = c;
    yield_op(OP_CWAIT, i);
    yield_op(OP_CREACQ, i);
    return 0;
}
int __wrap_pthread_cond_signal(pthread_cond_t * c) {
    if (!managed()) return __real_pthread_cond_signal(c);
    yield_op(OP_SIGNAL, 0);
    return 0;
}

static void thread_exit_hook(int t) {
    hash_pending(t);
    __real_pthread_mutex_lock(&g_mu_);
    th_[t].finished = 1; th_[t].pend = OP_NONE;
    if (t == 2) consumer_alive_ = 0;
    tr("%dX", t);
    pick_next();
    __real_pthread_mutex_unlock(&g_mu_);
}
static void thread_begin(int t) {
    my_tid_ = t;
    __real_pthread_mutex_lock(&g_mu_);
    th_[t].pend = OP_BEGIN; th_[t].started = 1;
    pthread_cond_broadcast(&main_cv_);       /* the creator waits until we are parked */
    while (g_cur_ != t) __real_pthread_cond_wait(&th_[t].cv, &g_mu_);
    perform(t);
    __real_pthread_mutex_unlock(&g_mu_);
}
static void * consumer_tramp(void * arg) {
    (void) arg;
    thread_begin(2);
    void * rv = consumer_fn_(consumer_arg_);
    thread_exit_hook(2);
    return rv;
}
int __wrap_pthread_create(pthread_t * pt, const pthread_attr_t * attr, void * (*fn)(void *), void * arg) {
    if (!managed()) return __real_pthread_create(pt, attr, fn, arg);
    /* not a scheduling point: jls_twr_open runs inside the first step of producer 0 */
    consumer_fn_ = fn; consumer_arg_ = arg;
    __real_pthread_mutex_lock(&g_mu_);
    th_[2].used = 1; th_[2].started = 0; th_[2].finished = 0;
    int rc = __real_pthread_create(&th_[2].pt, attr, consumer_tramp, NULL);
    if (rc) { th_[2].used = 0; __real_pthread_mutex_unlock(&g_mu_); return rc; }
    while (!th_[2].started) __real_pthread_cond_wait(&main_cv_, &g_mu_);
    consumer_alive_ = 1;
    tr("%dC", my_tid_);
    __real_pthread_mutex_unlock(&g_mu_);
    *pt = th_[2].pt;
    return 0;
}
int __wrap_pthread_join(pthread_t pt, void ** rv) {
    if (!managed()) return __real_pthread_join(pt, rv);
    yield_op(OP_JOIN, 2);
    return __real_pthread_join(pt, rv);
}
int __wrap_nanosleep(const struct timespec * req, struct timespec * rem) {
    if (!managed()) return __real_nanosleep(req, rem);
    int ms = (int) (req->tv_sec * 1000 + req->tv_nsec / 1000000);
    yield_op(OP_SLEEP, ms);
    yield_op(OP_WAKE, 0);
    if (rem) { rem->tv_sec = 0; rem->tv_nsec = 0; }
    return 0;
}
int __wrap_clock_gettime(clockid_t id, struct timespec * ts) {
    if (!managed()) return __real_clock_gettime(id, ts);
    ts->tv_sec = (time_t) (now_ms_ / 1000);
    ts->tv_nsec = (long) (now_ms_ % 1000) * 1000000L;
    tr("%dg%" PRId64, my_tid_, now_ms_);
    return 0;
}

/* optional complete backend write log of the threaded writer's file (for C14): TWR_WLOG=1 -> <scratch>/wlog_<case idx>.log,
   one line per backend call in the format of the `prog` kind's logdump ("w <offset> <hex>", "t <len>", "s") */
static FILE * wlog_f_ = NULL;
static int wlog_idx_ = 0;
static const char * wlog_dir_ = NULL;
static void wlog_open(void) {
    if (!getenv("TWR_WLOG") || wlog_f_ || !wlog_dir_) return;
    char p[700]; snprintf(p, sizeof(p), "%s/wlog_%d.log", wlog_dir_, wlog_idx_);
    wlog_f_ = fopen(p, "w");
}
static void wlog_write(int fd, const void * buf, size_t n) {
    if (!wlog_f_) return;
    off_t pos = lseek(fd, 0, SEEK_CUR);
    fprintf(wlog_f_, "w %lld ", (long long) pos);
    const uint8_t * b = (const uint8_t *) buf;
    for (size_t i = 0; i < n; ++i) fprintf(wlog_f_, "%02x", b[i]);
    fputc('\n', wlog_f_);
}

static void io_check(void) {
    if (managed() && consumer_alive_ && mtx_owner_[1] != my_tid_) { ++chk_race_p_; tr("%d!P", my_tid_); }
}
int __wrap_open(const char * path, int flags, ...) {
    mode_t mode = 0;
    if (flags & O_CREAT) { va_list ap; va_start(ap, flags); mode = va_arg(ap, mode_t); va_end(ap); }
    int fd = __real_open(path, flags, mode);
    if (fd >= 0 && g_on_ && 0 == strcmp(path, path_) && (flags & (O_RDWR | O_WRONLY))) {
        wl_fd_ = fd;
        wlog_open();
        if (wlog_f_ && (flags & O_TRUNC)) fprintf(wlog_f_, "t 0\n");
        if (my_tid_ >= 0) tr("%do", my_tid_);
    }
    return fd;
}
ssize_t __wrap_write(int fd, const void * buf, size_t n) {
    if (g_on_ && fd == wl_fd_ && my_tid_ >= 0) { io_check(); ++wl_n_; tr("%dw%zu", my_tid_, n); }
    if (opt_wy_ && g_on_ && fd == wl_fd_ && my_tid_ >= 0) yield_op(OP_IO, 0);   /* wy=1: every backend write is a scheduling point (C14) */
    if (g_on_ && fd == wl_fd_) wlog_write(fd, buf, n);
    return __real_write(fd, buf, n);
}
int __wrap_fsync(int fd) {
    if (g_on_ && fd == wl_fd_ && my_tid_ >= 0) { io_check(); ++wl_n_; ++wl_fsync_; tr("%df", my_tid_); }
    if (g_on_ && fd == wl_fd_ && wlog_f_) fprintf(wlog_f_, "s\n");
    return __real_fsync(fd);
}
int __wrap_ftruncate(int fd, off_t len) {
    if (g_on_ && fd == wl_fd_ && my_tid_ >= 0) { io_check(); ++wl_n_; tr("%dt%lld", my_tid_, (long long) len); }
    if (g_on_ && fd == wl_fd_ && wlog_f_) fprintf(wlog_f_, "t %lld\n", (long long) len);
    return __real_ftruncate(fd, len);
}

static void mrb_check(void) {
    if (managed() && mtx_owner_[0] != my_tid_) { ++chk_race_m_; tr("%d!M", my_tid_); }
}
uint8_t * __wrap_jls_mrb_alloc(struct jls_mrb_s * self, uint32_t size) {
    uint8_t * p = __real_jls_mrb_alloc(self, size);
    if (managed()) {
        int t = my_tid_;
        mrb_check();
        if (p) {
            tr("%da%u:%ld", t, size, (long) (p - self->buf));
            if (nacc_ < 4096) { acc_[nacc_].tid = t; acc_[nacc_].call = th_[t].cur_call; acc_[nacc_].off = (uint32_t) (p - self->buf); acc_[nacc_].size = size; ++nacc_; }
            if (t < 2 && th_[t].cur_call >= 0) ++prog_[t].c[th_[t].cur_call].accepted;
            th_[t].hash_ptr = p; th_[t].hash_len = size;
        } else {
            tr("%da%u:-", t, size);
        }
    }
    return p;
}
uint8_t * __wrap_jls_mrb_peek(struct jls_mrb_s * self, uint32_t * size) {
    uint8_t * p = __real_jls_mrb_peek(self, size);
    if (managed()) {
        mrb_check();
        if (p) tr("%dp%ld:%u", my_tid_, (long) (p - self->buf), *size); else tr("%dp-", my_tid_);
        peek_ptr_ = p; peek_sz_ = p ? *size : 0;
    }
    return p;
}
uint8_t * __wrap_jls_mrb_pop(struct jls_mrb_s * self, uint32_t * size) {
    uint8_t * p = __real_jls_mrb_pop(self, size);
    if (managed()) {
        mrb_check();
        if (p) tr("%dq%ld:%u", my_tid_, (long) (p - self->buf), *size); else tr("%dq-", my_tid_);
    }
    return p;
}

/* ------------------------------------------------------------------ producers */
static struct jls_twr_s * twr_ = NULL;
static int32_t open_rc_ = 0;

static uint64_t file_hash(const char * path, size_t * len_out) {
    int fd = __real_open(path, O_RDONLY, 0);
    uint64_t h = 0xcbf29ce484222325ULL; size_t total = 0;
    if (fd < 0) { if (len_out) *len_out = 0; return 0; }
    uint8_t buf[65536]; ssize_t n;
    while ((n = read(fd, buf, sizeof(buf))) > 0) {
        for (ssize_t i = 0; i < n; ++i) { h ^= buf[i]; h *= 0x100000001b3ULL; }
        total += (size_t) n;
    }
    close(fd);
    if (len_out) *len_out = total;
    return h;
}

static int32_t do_call_twr(struct call_s * c) {
    switch (c->kind) {
        case K_SRC: { struct jls_source_def_s s; fill_source(&s, c); return jls_twr_source_def(twr_, &s); }
        case K_SIG: { struct jls_signal_def_s g; fill_signal(&g, c); return jls_twr_signal_def(twr_, &g); }
        case K_FSR: return jls_twr_fsr(twr_, (uint16_t) c->a[0], c->a[2], c->data, (uint32_t) c->a[1]);
        case K_ANN: return jls_twr_annotation(twr_, (uint16_t) c->a[0], c->a[1], (float) c->a[1], JLS_ANNOTATION_TYPE_TEXT, 0,
                                              JLS_STORAGE_TYPE_STRING, c->data, c->data_len);
        case K_UTC: return jls_twr_utc(twr_, (uint16_t) c->a[0], c->a[1], c->a[2]);
        case K_UD: return jls_twr_user_data(twr_, (uint16_t) c->a[0], JLS_STORAGE_TYPE_BINARY, c->data, c->data_len);
        case K_OMIT: return jls_twr_fsr_omit_data(twr_, (uint16_t) c->a[0], (uint32_t) c->a[1]);
        case K_FLUSH: return jls_twr_flush(twr_);
        case K_FLAGS: return jls_twr_flags_set(twr_, (uint32_t) c->a[0]);
        case K_CLOSE: { int32_t rc = jls_twr_close(twr_); twr_ = NULL; return rc; }
    }
    return -1;
}
static int32_t do_call_sync(struct jls_wr_s * wr, struct call_s * c) {
    switch (c->kind) {
        case K_SRC: { struct jls_source_def_s s; fill_source(&s, c); return jls_wr_source_def(wr, &s); }
        case K_SIG: { struct jls_signal_def_s g; fill_signal(&g, c); return jls_wr_signal_def(wr, &g); }
        case K_FSR: return jls_wr_fsr(wr, (uint16_t) c->a[0], c->a[2], c->data, (uint32_t) c->a[1]);
        case K_ANN: return jls_wr_annotation(wr, (uint16_t) c->a[0], c->a[1], (float) c->a[1], JLS_ANNOTATION_TYPE_TEXT, 0,
                                             JLS_STORAGE_TYPE_STRING, c->data, c->data_len);
        case K_UTC: return jls_wr_utc(wr, (uint16_t) c->a[0], c->a[1], c->a[2]);
        case K_UD: return jls_wr_user_data(wr, (uint16_t) c->a[0], JLS_STORAGE_TYPE_BINARY, c->data, c->data_len);
        case K_OMIT: return jls_wr_fsr_omit_data(wr, (uint16_t) c->a[0], (uint32_t) c->a[1]);
        case K_FLUSH: return jls_wr_flush(wr);
        default: return 0;
    }
}

static void * producer_main(void * arg) {
    int t = (int) (intptr_t) arg;
    thread_begin(t);
    if (t == 0) {
        open_rc_ = jls_twr_open(&twr_, path_);
        tr("0r-1=%d", (int) open_rc_);
        open_done_ = 1;
    }
    if (twr_) {
        struct prog_s * p = &prog_[t];
        for (int i = 0; i < p->n; ++i) {
            struct call_s * c = &p->c[i];
            th_[t].cur_call = i;
            if (c->kind == K_CLOSE && nprod_ > 1) yield_op(OP_HJOIN, 0);
            tr("%dc%d", t, i);
            c->rc = do_call_twr(c);
            hash_pending(t);
            c->done = 1;
            c->wpos = wl_n_; c->nfsync = wl_fsync_; c->napplied = nproc_; c->t_ret = now_ms_;
            if (c->kind == K_FLUSH && c->rc == 0) c->snap = file_hash(path_, NULL);
            tr("%dr%d=%d", t, i, (int) c->rc);
        }
        th_[t].cur_call = -1;
    }
    thread_exit_hook(t);
    return NULL;
}

/* ------------------------------------------------------------------ one case (in the child) */
static void parse_sched(char * s) {
    size_t cap = 64; sched_ = malloc(cap * sizeof(*sched_)); sched_n_ = 0; sched_pos_ = 0;
    char * save = NULL;
    for (char * e = strtok_r(s, ", \t", &save); e; e = strtok_r(NULL, ", \t", &save)) {
        if (sched_n_ == cap) { cap *= 2; sched_ = realloc(sched_, cap * sizeof(*sched_)); }
        struct sched_e * x = &sched_[sched_n_];
        if (e[0] == 'T') { x->kind = 2; x->tid = 0; x->n = strtol(e + 1, NULL, 10); }
        else {
            char * q; x->tid = (int) strtol(e, &q, 10); x->kind = 0; x->n = 1;
            if (*q == '*') x->n = strtol(q + 1, NULL, 10);
            else if (*q == '+') { x->kind = 1; x->n = strtol(q + 1, NULL, 10); }
            if (x->tid < 0 || x->tid >= NTH) continue;
        }
        ++sched_n_;
    }
}

static void copy_file(const char * from, const char * to) {
    int a = __real_open(from, O_RDONLY, 0); if (a < 0) return;
    int b = __real_open(to, O_WRONLY | O_CREAT | O_TRUNC, 0644); if (b < 0) { close(a); return; }
    uint8_t buf[65536]; ssize_t n;
    while ((n = read(a, buf, sizeof(buf))) > 0) { ssize_t k = __real_write(b, buf, (size_t) n); (void) k; }
    close(a); close(b);
}

static void print_rcs(int pi) {
    if (pi >= nprod_) { printf("-"); return; }
    for (int i = 0; i < prog_[pi].n; ++i) {
        if (i) putchar(',');
        if (prog_[pi].c[i].done) printf("%d", (int) prog_[pi].c[i].rc); else putchar('?');
    }
}

static int is_msg_kind(int k) { return k == K_FSR || k == K_ANN || k == K_UTC || k == K_UD || k == K_OMIT; }

/* synchronous reference.  order 0: as applied (messages in acceptance order, definitions at their
 * process-lock position); order 1: submission order of producer 0, calls that returned 0 only */
static uint64_t reference(int order, size_t * len, char * snaps, size_t snaps_cap, char * rcs, size_t rcs_cap) {
    struct jls_wr_s * wr = NULL;
    size_t sn = 0, rn = 0;
    snaps[0] = 0; rcs[0] = 0;
    unlink(rpath_);
    if (jls_wr_open(&wr, rpath_)) { *len = 0; return 0; }
    #define REF_ONE(cc) do { \
        struct call_s * c_ = (cc); int32_t rc_ = do_call_sync(wr, c_); \
        if (rn + 16 < rcs_cap) rn += (size_t) snprintf(rcs + rn, rcs_cap - rn, "%s%d", rn ? "," : "", (int) rc_); \
        if (c_->kind == K_FLUSH && sn + 24 < snaps_cap) sn += (size_t) snprintf(snaps + sn, snaps_cap - sn, "%s%016" PRIx64, sn ? "," : "", file_hash(rpath_, NULL)); \
    } while (0)
    if (order == 0) {
        for (int i = 0; i < napp_; ++i) {
            if (app_[i].is_def) { REF_ONE(&prog_[app_[i].tid].c[app_[i].call]); }
            else if (app_[i].k < nacc_) {
                struct call_s * c = &prog_[acc_[app_[i].k].tid].c[acc_[app_[i].k].call];
                if (c->kind != K_CLOSE) REF_ONE(c);
            }
        }
    } else {
        for (int i = 0; i < prog_[0].n; ++i) {
            struct call_s * c = &prog_[0].c[i];
            if (c->kind == K_CLOSE || c->kind == K_FLAGS) continue;
            if (c->kind == K_FLUSH) { if (c->accepted) REF_ONE(c); continue; }
            if (c->done && c->rc == 0) REF_ONE(c);
        }
    }
    #undef REF_ONE
    jls_wr_close(wr);
    return file_hash(rpath_, len);
}

static void run_case(char * line, int case_idx, const char * scratch) {
    wlog_idx_ = case_idx; wlog_dir_ = scratch;
    char * f[5] = {0}; int nf = 0; char * s = line;
    while (nf < 5) { f[nf++] = s; char * bar = strchr(s, '|'); if (!bar) break; *bar = 0; s = bar + 1; }
    const char * name = f[0] ? f[0] : "?";
    if (nf < 5) { printf("%s BADSCRIPT END\n", name); return; }
    /* opts */
    opt_seed_ = 0; opt_starve_ = 0; opt_big_ = 0; opt_pri_ = 1; opt_save_[0] = 0; opt_wy_ = 0;
    { char * save = NULL;
      for (char * o = strtok_r(f[1], " \t", &save); o; o = strtok_r(NULL, " \t", &save)) {
        if (0 == strncmp(o, "seed=", 5)) opt_seed_ = strtoull(o + 5, NULL, 10);
        else if (0 == strncmp(o, "starve=", 7)) opt_starve_ = atoi(o + 7);
        else if (0 == strncmp(o, "big=", 4)) opt_big_ = atoi(o + 4);
        else if (0 == strncmp(o, "pri=", 4)) opt_pri_ = atoi(o + 4);
        else if (0 == strncmp(o, "wy=", 3)) opt_wy_ = atoi(o + 3);
        else if (0 == strncmp(o, "maxsteps=", 9)) g_max_steps_ = atol(o + 9);
        else if (0 == strncmp(o, "save=", 5)) snprintf(opt_save_, sizeof(opt_save_), "%s", o + 5);
      } }
    nprod_ = (f[3][0] == '-' || f[3][0] == 0) ? 1 : 2;
    /* `sig` ops of both programs define the buffer sizes the callers use: parse defs of prog 1 first
       is not needed, each producer uses the script-level table in textual order (0 then 1) */
    if (parse_prog(0, f[2]) || (nprod_ > 1 && parse_prog(1, f[3]))) { printf("%s BADSCRIPT END\n", name); return; }
    parse_sched(f[4]);
    snprintf(path_, sizeof(path_), "%s/t%d_%d.jls", scratch, (int) getpid(), case_idx);
    snprintf(rpath_, sizeof(rpath_), "%s/r%d_%d.jls", scratch, (int) getpid(), case_idx);
    snprintf(spath_, sizeof(spath_), "%s/s%d_%d.jls", scratch, (int) getpid(), case_idx);
    rng_ = mix64(opt_seed_ + 0x1234567ULL) | 1;
    for (int t = 0; t < NTH; ++t) { memset(&th_[t], 0, sizeof(th_[t])); pthread_cond_init(&th_[t].cv, NULL); th_[t].cur_call = -1; th_[t].prio = 1000 + rnd() % 1000000; }
    nchg_ = (int) (rnd() % 4);
    for (int i = 0; i < nchg_; ++i) chg_[i] = (long) (rnd() % 400);

    /* ---- threaded run ---- */
    g_on_ = 1;
    __real_pthread_mutex_lock(&g_mu_);
    for (int t = 0; t < nprod_; ++t) {
        th_[t].used = 1;
        __real_pthread_create(&th_[t].pt, NULL, producer_main, (void *) (intptr_t) t);
        while (!th_[t].started) __real_pthread_cond_wait(&main_cv_, &g_mu_);
    }
    pick_next();
    while (g_cur_ != MAIN_TID) __real_pthread_cond_wait(&main_cv_, &g_mu_);
    g_on_ = 0;
    __real_pthread_mutex_unlock(&g_mu_);
    int ok = (0 == strcmp(g_status_, "OK"));
    if (ok) for (int t = 0; t < nprod_; ++t) __real_pthread_join(th_[t].pt, NULL);

    /* ---- results ---- */
    printf("%s st=%s q=%d ec=%d,%d,%02x steps=%ld now=%" PRId64 " open=%d rc0=", name, g_status_, (int) TWR_QUEUE_SIZE,
           (int) JLS_ERROR_BUSY, (int) JLS_ERROR_TIMED_OUT, (unsigned) JLS_TAG_END, g_steps_, now_ms_, (int) open_rc_);
    print_rcs(0); printf(" rc1="); print_rcs(1);
    printf(" acc=");
    for (int i = 0; i < nacc_; ++i) printf("%s%d.%d", i ? "," : "", acc_[i].tid, acc_[i].call);
    if (!nacc_) putchar('-');
    printf(" app=");
    for (int i = 0; i < napp_; ++i) { if (i) putchar(','); if (app_[i].is_def) printf("d%d.%d", app_[i].tid, app_[i].call); else printf("m%d", app_[i].k); }
    if (!napp_) putchar('-');
    /* self-consistency of return codes with what happened to the queue */
    char chk[256]; size_t cn = 0; chk[0] = 0;
    for (int t = 0; t < nprod_; ++t) for (int i = 0; i < prog_[t].n; ++i) {
        struct call_s * c = &prog_[t].c[i];
        if (!c->done) continue;
        if (is_msg_kind(c->kind) && ((c->rc == 0) != (c->accepted == 1)) && cn + 32 < sizeof(chk))
            cn += (size_t) snprintf(chk + cn, sizeof(chk) - cn, "%src-vs-queue:%d.%d", cn ? "," : "", t, i);
        if (c->accepted > 1 && cn + 32 < sizeof(chk)) cn += (size_t) snprintf(chk + cn, sizeof(chk) - cn, "%sdup:%d.%d", cn ? "," : "", t, i);
    }
    if (ok && nproc_ != nacc_ && cn + 40 < sizeof(chk)) cn += (size_t) snprintf(chk + cn, sizeof(chk) - cn, "%sapplied%d!=accepted%d", cn ? "," : "", nproc_, nacc_);
    if (chk_race_m_ && cn + 16 < sizeof(chk)) cn += (size_t) snprintf(chk + cn, sizeof(chk) - cn, "%srace-queue", cn ? "," : "");
    if (chk_race_p_ && cn + 16 < sizeof(chk)) cn += (size_t) snprintf(chk + cn, sizeof(chk) - cn, "%srace-file", cn ? "," : "");
    printf(" chk=%s", cn ? chk : "-");
    printf(" fl=");
    int nfl = 0;
    for (int t = 0; t < nprod_; ++t) for (int i = 0; i < prog_[t].n; ++i) {
        struct call_s * c = &prog_[t].c[i];
        if (c->kind != K_FLUSH || !c->done) continue;
        printf("%s%d.%d:%d:%zu:%d:%d:%016" PRIx64, nfl++ ? "," : "", t, i, (int) c->rc, c->wpos, c->nfsync, c->napplied, c->snap);
    }
    if (!nfl) putchar('-');
    { struct call_s * c = &prog_[0].c[prog_[0].n - 1];
      if (c->done) printf(" cl=%d:%zu:%d", (int) c->rc, c->wpos, c->napplied); else printf(" cl=-"); }
    size_t flen = 0, rlen = 0, slen = 0;
    uint64_t fh = file_hash(path_, &flen);
    if (wlog_f_) { fclose(wlog_f_); wlog_f_ = NULL; }
    printf(" file=%zu:%016" PRIx64, flen, fh);
    { /* file header length field (offset 16) and the tag byte of the last 32-byte chunk header */
      uint64_t hl = 0; uint8_t tag = 0; int fd = __real_open(path_, O_RDONLY, 0);
      if (fd >= 0) {
          if (pread(fd, &hl, 8, 16) != 8) hl = 0;
          if (flen >= 64 && pread(fd, &tag, 1, (off_t) flen - 32 + 16) != 1) tag = 0;
          close(fd);
      }
      printf(" hdr=%" PRIu64 ":%02x", hl, tag); }
    if (ok) {
        static char snaps[4096], rcs[4096], snaps2[4096], rcs2[4096];
        uint64_t rh = reference(0, &rlen, snaps, sizeof(snaps), rcs, sizeof(rcs));
        printf(" ref=%zu:%016" PRIx64 " cmp=%s rsnap=%s rrc=%s", rlen, rh, (rh == fh && rlen == flen) ? "eq" : "ne", snaps[0] ? snaps : "-", rcs[0] ? rcs : "-");
        if (opt_save_[0]) { char p2[600]; copy_file(path_, opt_save_); snprintf(p2, sizeof(p2), "%s.ref", opt_save_); copy_file(rpath_, p2); }
        if (nprod_ == 1) {
            char keep[600]; snprintf(keep, sizeof(keep), "%s", rpath_); snprintf(rpath_, sizeof(rpath_), "%s", spath_);
            uint64_t sh = reference(1, &slen, snaps2, sizeof(snaps2), rcs2, sizeof(rcs2));
            printf(" sub=%s", (sh == fh && slen == flen) ? "eq" : "ne");
            unlink(spath_); snprintf(rpath_, sizeof(rpath_), "%s", keep);
        } else printf(" sub=na");
    } else {
        if (opt_save_[0]) copy_file(path_, opt_save_);
        printf(" ref=- cmp=na rsnap=- rrc=- sub=na");
    }
    unlink(path_); unlink(rpath_);
    printf(" tr=");
    fwrite(sh_->buf, 1, sh_->n, stdout);
    printf("END\n");
    fflush(stdout);
}

int main(int argc, char ** argv) {
    const char * scratch = argc > 1 ? argv[1] : "/tmp";
    sh_ = mmap(NULL, sizeof(struct shared_s), PROT_READ | PROT_WRITE, MAP_SHARED | MAP_ANONYMOUS, -1, 0);
    if (sh_ == MAP_FAILED) { perror("mmap"); return 2; }
    char * line = NULL; size_t cap = 0; ssize_t n; int idx = 0;
    while ((n = getline(&line, &cap, stdin)) >= 0) {
        while (n > 0 && (line[n - 1] == '\n' || line[n - 1] == '\r')) line[--n] = 0;
        if (!n) { printf("EMPTY END\n"); continue; }
        ++idx;
        sh_->n = 0;
        fflush(stdout);
        pid_t pid = fork();
        if (pid == 0) {
            static char outbuf[1 << 20];
            setvbuf(stdout, outbuf, _IOFBF, sizeof(outbuf));   /* nothing reaches the pipe before the case is complete */
            alarm(60);
            run_case(line, idx, scratch);
            _exit(0);
        }
        int status = 0;
        waitpid(pid, &status, 0);
        if (!(WIFEXITED(status) && WEXITSTATUS(status) == 0)) {
            char nm[128]; size_t k = 0;
            while (line[k] && line[k] != '|' && k < 127) { nm[k] = line[k]; ++k; }
            nm[k] = 0;
            const char * what = "EXIT";
            char tmp[32];
            if (WIFSIGNALED(status)) {
                int sg = WTERMSIG(status);
                what = sg == SIGSEGV ? "SIGSEGV" : sg == SIGALRM ? "TIMEOUT" : sg == SIGABRT ? "SIGABRT" : sg == SIGFPE ? "SIGFPE" : sg == SIGBUS ? "SIGBUS" : (snprintf(tmp, sizeof(tmp), "SIG%d", sg), tmp);
            } else if (WIFEXITED(status)) {
                if (WEXITSTATUS(status) == 99) what = "ASAN"; else { snprintf(tmp, sizeof(tmp), "EXIT%d", WEXITSTATUS(status)); what = tmp; }
            }
            printf("%s st=FAULT:%s q=%d tr=", nm, what, (int) TWR_QUEUE_SIZE);
            fwrite(sh_->buf, 1, sh_->n, stdout);
            printf("END\n");
            /* stale scratch files of the dead child */
            char p[700];
            snprintf(p, sizeof(p), "%s/t%d_%d.jls", scratch, (int) pid, idx); unlink(p);
            snprintf(p, sizeof(p), "%s/r%d_%d.jls", scratch, (int) pid, idx); unlink(p);
            snprintf(p, sizeof(p), "%s/s%d_%d.jls", scratch, (int) pid, idx); unlink(p);
        }
        fflush(stdout);
    }
    free(line);
    return 0;
}
