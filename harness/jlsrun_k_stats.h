/* kind stats (C20): one program per line, run on the real jls_statistics_* functions.
 *
 *   <nreg> <n> <v_0> ... <v_{n-1}> <op> <op> ...
 *
 * values: <signed hex integer m>p<decimal exponent e>  meaning m * 2^e, |m| < 2^53
 *         (every finite double can be written this way; conversion is exact).
 * registers r[0..nreg) are struct jls_statistics_s, all reset at the start of the line.
 * ops (arguments are separate tokens):
 *   R i            jls_statistics_reset(&r[i])
 *   C i lo hi      jls_statistics_compute_f64(&r[i], x + lo, hi - lo)
 *   F i lo hi      jls_statistics_compute_f32(&r[i], (float) x[lo..hi), hi - lo)
 *   A i lo hi      for j in [lo, hi): jls_statistics_add(&r[i], x[j])
 *   M t a b        jls_statistics_combine(&r[t], &r[a], &r[b])    (t, a, b may coincide)
 *   Y t s          jls_statistics_copy(&r[t], &r[s])
 *   K i <hex>      r[i].k = <hex>   (direct store into the public struct; count-wrap cases)
 *   P i            print r[i] and jls_statistics_var(&r[i])
 * result line: the P outputs joined by " | ", each
 *   k=<hex> mean=<bits> s=<bits> min=<bits> max=<bits> var=<bits>     (bits = raw binary64, 16 hex digits)
 * a malformed line prints "?" (also "NOTF32" if an F operand is not a float). */
#include "jls/statistics.h"
#include <math.h>

static uint64_t stats_bits_(double d) { uint64_t u; memcpy(&u, &d, 8); return u; }

static int stats_parse_value_(const char * tok, double * out) {
    char * end = NULL;
    errno = 0;
    long long m = strtoll(tok, &end, 16);
    if (errno || end == tok || *end != 'p') return 1;
    char * end2 = NULL;
    long e = strtol(end + 1, &end2, 10);
    if (end2 == end + 1 || *end2) return 1;
    if (m > (1LL << 53) || m < -(1LL << 53)) return 1;
    *out = ldexp((double) m, (int) e);
    return 0;
}

KIND(stats) {
    (void) argc; (void) argv;
    char * line;
    while ((line = read_line())) {
        char * save = NULL;
        char * tok = strtok_r(line, " ", &save);
        int bad = 0, notf32 = 0, first = 1;
        struct jls_statistics_s * r = NULL;
        double * x = NULL;
        float * xf = NULL;
        long nreg = 0, n = 0;
        if (!tok) { bad = 1; goto done; }
        nreg = strtol(tok, NULL, 10);
        tok = strtok_r(NULL, " ", &save);
        if (!tok || nreg < 1 || nreg > 100000) { bad = 1; goto done; }
        n = strtol(tok, NULL, 10);
        if (n < 0 || n > 10000000) { bad = 1; goto done; }
        r = malloc(sizeof(*r) * (size_t) nreg);
        x = malloc(sizeof(double) * (size_t) (n ? n : 1));       /* exact size: ASan sees any overrun */
        xf = malloc(sizeof(float) * (size_t) (n ? n : 1));
        for (long i = 0; i < nreg; ++i) jls_statistics_reset(&r[i]);
        for (long i = 0; i < n; ++i) {
            tok = strtok_r(NULL, " ", &save);
            if (!tok || stats_parse_value_(tok, &x[i])) { bad = 1; goto done; }
            xf[i] = (float) x[i];
        }
        /* collect the output in a buffer so that a bad op prints only "?" */
        {
            size_t cap = 256, len = 0;
            char * out = malloc(cap);
            out[0] = 0;
            while ((tok = strtok_r(NULL, " ", &save))) {
                char op = tok[0];
                long a[3] = {0, 0, 0};
                int na = (op == 'R' || op == 'P') ? 1 : (op == 'Y') ? 2 : (op == 'K') ? 1 : 3;
                if (tok[1] || !strchr("RCFAMYKP", op)) { bad = 1; break; }
                for (int j = 0; j < na; ++j) {
                    char * t = strtok_r(NULL, " ", &save);
                    if (!t) { bad = 1; break; }
                    a[j] = strtol(t, NULL, 10);
                }
                if (bad) break;
                if (a[0] < 0 || a[0] >= nreg) { bad = 1; break; }
                switch (op) {
                    case 'R': jls_statistics_reset(&r[a[0]]); break;
                    case 'C': case 'F': case 'A':
                        if (a[1] < 0 || a[2] < a[1] || a[2] > n) { bad = 1; break; }
                        if (op == 'C') {
                            jls_statistics_compute_f64(&r[a[0]], x + a[1], (uint64_t) (a[2] - a[1]));
                        } else if (op == 'F') {
                            for (long j = a[1]; j < a[2]; ++j) if ((double) xf[j] != x[j]) notf32 = 1;
                            jls_statistics_compute_f32(&r[a[0]], xf + a[1], (uint64_t) (a[2] - a[1]));
                        } else {
                            for (long j = a[1]; j < a[2]; ++j) jls_statistics_add(&r[a[0]], x[j]);
                        }
                        break;
                    case 'M':
                        if (a[1] < 0 || a[1] >= nreg || a[2] < 0 || a[2] >= nreg) { bad = 1; break; }
                        jls_statistics_combine(&r[a[0]], &r[a[1]], &r[a[2]]);
                        break;
                    case 'Y':
                        if (a[1] < 0 || a[1] >= nreg) { bad = 1; break; }
                        jls_statistics_copy(&r[a[0]], &r[a[1]]);
                        break;
                    case 'K': {
                        char * t = strtok_r(NULL, " ", &save);
                        if (!t) { bad = 1; break; }
                        r[a[0]].k = strtoull(t, NULL, 16);
                        break;
                    }
                    case 'P': {
                        struct jls_statistics_s * s = &r[a[0]];
                        double v = jls_statistics_var(s);
                        if (len + 160 > cap) { cap = cap * 2 + 160; out = realloc(out, cap); }
                        len += (size_t) snprintf(out + len, cap - len,
                            "%sk=%" PRIx64 " mean=%016" PRIx64 " s=%016" PRIx64 " min=%016" PRIx64 " max=%016" PRIx64 " var=%016" PRIx64,
                            first ? "" : " | ", s->k, stats_bits_(s->mean), stats_bits_(s->s),
                            stats_bits_(s->min), stats_bits_(s->max), stats_bits_(v));
                        first = 0;
                        break;
                    }
                    default: bad = 1; break;
                }
                if (bad) break;
            }
            if (!bad && !notf32) printf("%s\n", out);
            free(out);
        }
done:
        if (bad) printf("?\n");
        else if (notf32) printf("NOTF32\n");
        free(r); free(x); free(xf);
        free(line);
    }
    return 0;
}
