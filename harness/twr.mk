# Build rules of the `twr` slice (C06/C07): the deterministic scheduling harness `twrrun`.
#   make -f /verif/harness/twr.mk [REPO=/repo] [B=/verif/build]
# Library objects are compiled from $(REPO)/src with the small-queue hook
# (-DJLS_VERIF -DJLS_VERIF_MRB_BUFFER_SIZE=<size>) into $(B)/twr_<variant>_<size>/ and linked with
# harness/twr_sched.c; pthread, time, file I/O and the queue functions are interposed at link time.
REPO ?= /repo
B    ?= /verif/build
H    := /verif/harness
SRCS := bit_shift buffer datatype copy core crc32c ec log msg_ring_buffer raw tmap \
        reader statistics threaded_writer track wr_fsr wr_ts writer backend_posix
INC  := -I$(REPO)/include -I$(REPO)/include_prv
COMMON := -std=gnu11 -g -DJLS_VERIF -D__FILENAME__=\"x\" $(INC) -Wno-unused-result
HDRS := $(wildcard $(REPO)/include/jls/*.h $(REPO)/include_prv/jls/*.h)
CF_plain := -O1 -msse4.2 $(COMMON)
CF_asan  := -O1 -msse4.2 -fsanitize=address,undefined -fno-sanitize-recover=undefined -fno-omit-frame-pointer $(COMMON)
CF_tsan  := -O1 -msse4.2 -fsanitize=thread -fno-omit-frame-pointer $(COMMON)
WRAPS := pthread_mutex_init pthread_mutex_lock pthread_mutex_unlock pthread_cond_wait pthread_cond_signal \
         pthread_create pthread_join nanosleep clock_gettime open write fsync ftruncate \
         jls_mrb_alloc jls_mrb_peek jls_mrb_pop
comma := ,
empty :=
space := $(empty) $(empty)
WRAPFLAGS := -Wl,$(subst $(space),$(comma),$(addprefix --wrap=,$(WRAPS)))
SIZES ?= 4096 512
VARIANTS ?= plain asan

all: $(foreach v,$(VARIANTS),$(foreach z,$(SIZES),$(B)/twr_$(v)_$(z)/twrrun))

define TWR_RULES
$(B)/twr_$(1)_$(2)/%.o: $(REPO)/src/%.c $(HDRS) $(wildcard $(REPO)/src/crc32c_*.c)
	@mkdir -p $(B)/twr_$(1)_$(2)
	$(CC) $$(CF_$(1)) -DJLS_VERIF_MRB_BUFFER_SIZE=$(2) -c $$< -o $$@
$(B)/twr_$(1)_$(2)/libjls.a: $(foreach s,$(SRCS),$(B)/twr_$(1)_$(2)/$(s).o)
	@rm -f $$@
	ar rcs $$@ $$^
$(B)/twr_$(1)_$(2)/twrrun: $(H)/twr_sched.c $(B)/twr_$(1)_$(2)/libjls.a $(H)/twr.mk
	$(CC) $$(CF_$(1)) -DTWR_QUEUE_SIZE=$(2) $(H)/twr_sched.c $(B)/twr_$(1)_$(2)/libjls.a -lm -lpthread $(WRAPFLAGS) -o $$@
endef
$(foreach v,plain asan tsan,$(foreach z,$(SIZES),$(eval $(call TWR_RULES,$(v),$(z)))))
.PHONY: all
