/* kind sigdef (property C16): signal-definition normalisation.
 *   usage: jlsrun sigdef [alarm_seconds=2]
 * script lines (numbers: strtoul base 0, i.e. decimal or 0x..):
 *   <data_type> <spd> <sdf> <eps> <sumdf> <anno> <utc> [<signal_id> <source_id> <signal_type>]
 *        calls jls_core_signal_def_validate, then (only if it returned 0, as jls_wr_signal_def does)
 *        jls_core_signal_def_align on a struct jls_signal_def_s; defaults signal_id=1 source_id=1 type=FSR.
 *   F <data_type> <spd> <sdf> <eps> <sumdf> <anno> <utc>
 *        whole path: jls_wr_open, jls_wr_source_def(1), jls_wr_signal_def(signal 1, FSR, 1000 Hz),
 *        jls_wr_close, jls_rd_open, jls_rd_signal(1), jls_rd_close on a temporary file.
 * result line (decimal), same for both forms:
 *   <rc> <spd> <sdf> <eps> <sumdf> <anno> <utc>        rc != 0: definition rejected; the fields are what the struct
 *        holds then: as given if validation rejected, after defaults if jls_core_signal_def_align rejected
 *        (F form: always as given - jls_wr_signal_def works on a copy)
 *   FAULT SIGFPE | FAULT TIMEOUT | FAULT UBSAN_DIVZERO | FAULT ASAN | FAULT SIG<n> | FAULT EXIT<n>
 * Every case runs in a forked child (one child runs consecutive cases until one of them kills it;
 * the parent then prints the FAULT line for that case and forks a new child for the rest), with
 * alarm(alarm_seconds) re-armed per case. */
#include "jls/core.h"
#include "jls/format.h"
#include "jls/writer.h"
#include "jls/reader.h"
#include <sys/mman.h>
#include <fcntl.h>

static void sigdef_print(int32_t rc, const struct jls_signal_def_s * d) {
    printf("%d %u %u %u %u %u %u\n", (int) rc, d->samples_per_data, d->sample_decimate_factor,
           d->entries_per_summary, d->summary_decimate_factor, d->annotation_decimate_factor, d->utc_decimate_factor);
}

static void sigdef_case(const char * line) {
    struct jls_signal_def_s d;
    memset(&d, 0, sizeof(d));
    unsigned long v[10] = {0, 0, 0, 0, 0, 0, 0, 1, 1, JLS_SIGNAL_TYPE_FSR};
    int file_mode = 0;
    const char * p = line;
    while (*p == ' ') ++p;
    if (*p == 'F') { file_mode = 1; ++p; }
    int n = 0;
    while (n < 10) {
        char * end = NULL;
        while (*p == ' ') ++p;
        if (!*p) break;
        v[n] = strtoul(p, &end, 0);
        if (end == p) break;
        p = end; ++n;
    }
    if (n != 7 && n != 10) { printf("?\n"); return; }
    d.data_type = (uint32_t) v[0];
    d.samples_per_data = (uint32_t) v[1];
    d.sample_decimate_factor = (uint32_t) v[2];
    d.entries_per_summary = (uint32_t) v[3];
    d.summary_decimate_factor = (uint32_t) v[4];
    d.annotation_decimate_factor = (uint32_t) v[5];
    d.utc_decimate_factor = (uint32_t) v[6];
    d.signal_id = (uint16_t) v[7];
    d.source_id = (uint16_t) v[8];
    d.signal_type = (uint8_t) v[9];
    if (!file_mode) {
        int32_t rc = jls_core_signal_def_validate(&d);
        if (0 == rc) {
            rc = jls_core_signal_def_align(&d);
        }
        sigdef_print(rc, &d);
        return;
    }
    char path[256];
    const char * tmp = getenv("TMPDIR");
    snprintf(path, sizeof(path), "%s/jls_sigdef_%d.jls", tmp ? tmp : "/tmp", (int) getpid());
    struct jls_wr_s * wr = NULL;
    struct jls_source_def_s src = {.source_id = 1, .name = "s", .vendor = "v", .model = "m", .version = "1", .serial_number = "0"};
    d.sample_rate = 1000;
    d.name = "sig"; d.units = "V";
    int32_t rc = jls_wr_open(&wr, path);
    if (rc) { printf("OPENFAIL %d\n", (int) rc); return; }
    rc = jls_wr_source_def(wr, &src);
    if (!rc) rc = jls_wr_signal_def(wr, &d);
    int32_t rc_close = jls_wr_close(wr);
    if (rc) { unlink(path); sigdef_print(rc, &d); return; }
    if (rc_close) { unlink(path); printf("CLOSEFAIL %d\n", (int) rc_close); return; }
    struct jls_rd_s * rd = NULL;
    rc = jls_rd_open(&rd, path);
    if (rc) { unlink(path); printf("RDOPENFAIL %d\n", (int) rc); return; }
    struct jls_signal_def_s r;
    memset(&r, 0, sizeof(r));
    rc = jls_rd_signal(rd, 1, &r);
    if (rc) { printf("RDSIGNALFAIL %d\n", (int) rc); } else { sigdef_print(0, &r); }
    jls_rd_close(rd);
    unlink(path);
}

KIND(sigdef) {
    unsigned secs = 2;
    if (argc > 0) secs = (unsigned) strtoul(argv[0], NULL, 0);
    size_t cap = 1024, n = 0;
    char ** lines = malloc(cap * sizeof(char *));
    char * line;
    while ((line = read_line())) {
        if (n == cap) { cap *= 2; lines = realloc(lines, cap * sizeof(char *)); }
        lines[n++] = line;
    }
    volatile size_t * progress = mmap(NULL, sizeof(size_t), PROT_READ | PROT_WRITE, MAP_SHARED | MAP_ANONYMOUS, -1, 0);
    if (progress == MAP_FAILED) return 3;
    char errpath[256];
    const char * tmp = getenv("TMPDIR");
    snprintf(errpath, sizeof(errpath), "%s/jls_sigdef_err_%d.txt", tmp ? tmp : "/tmp", (int) getpid());
    size_t start = 0;
    while (start < n) {
        fflush(stdout);
        int efd = open(errpath, O_RDWR | O_CREAT | O_TRUNC, 0600);
        pid_t pid = fork();
        if (pid < 0) return 3;
        if (pid == 0) {
            if (efd >= 0) { dup2(efd, 2); close(efd); }
            for (size_t i = start; i < n; ++i) {
                *progress = i;
                alarm(secs);
                sigdef_case(lines[i]);
                fflush(stdout);
                alarm(0);
            }
            *progress = n;
            fflush(stdout);
            _exit(0);
        }
        int st = 0;
        while (waitpid(pid, &st, 0) < 0 && errno == EINTR) {}
        static char ebuf[65536];
        ssize_t en = 0;
        if (efd >= 0) { en = pread(efd, ebuf, sizeof(ebuf) - 1, 0); close(efd); }
        if (en < 0) en = 0;
        ebuf[en] = 0;
        if (WIFEXITED(st) && WEXITSTATUS(st) == 0 && *progress >= n) {
            if (en > 0 && n <= 16) fputs(ebuf, stderr);
            break;
        }
        size_t at = *progress;
        if (at >= n) at = n - 1;
        {   /* a child killed inside the file form leaves its temporary file behind */
            char path[256];
            snprintf(path, sizeof(path), "%s/jls_sigdef_%d.jls", tmp ? tmp : "/tmp", (int) pid);
            unlink(path);
        }
        if (WIFSIGNALED(st)) {
            int sg = WTERMSIG(st);
            if (sg == SIGFPE) printf("FAULT SIGFPE\n");
            else if (sg == SIGALRM) printf("FAULT TIMEOUT\n");
            else printf("FAULT SIG%d\n", sg);
        } else if (strstr(ebuf, "division by zero")) {
            printf("FAULT UBSAN_DIVZERO\n");
        } else if (strstr(ebuf, "Sanitizer") || strstr(ebuf, "runtime error")) {
            printf("FAULT ASAN\n");
        } else {
            printf("FAULT EXIT%d\n", WIFEXITED(st) ? WEXITSTATUS(st) : -1);
        }
        fflush(stdout);
        if (n <= 16 && en > 0) fputs(ebuf, stderr);
        start = at + 1;
    }
    unlink(errpath);
    for (size_t i = 0; i < n; ++i) free(lines[i]);
    free(lines);
    return 0;
}
