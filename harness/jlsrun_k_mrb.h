/* kind mrb: one script line = one operation program on a fresh message ring buffer
 *     cap=<capacity> <op> <op> ...
 *   a:<n>  jls_mrb_alloc(n); when non-NULL the caller's copy memcpy(p, pattern(k, n), n)
 *          (k = number of a: ops before this one in the line; byte i = (31k + 3i + 1) % 251)
 *   k      jls_mrb_peek        p   jls_mrb_pop
 * result line: one token per op
 *     a=<offset>|a=NULL        offset of the returned pointer relative to the buffer
 *     k=<offset>:<size>:<digest>|k=NULL   (same for p=)
 *        digest = all bytes in hex when size <= 24, else <first 8>..<last 8>+<sum of bytes mod 2^32>
 *   each followed by @<head>,<tail>,<count> of the struct after the op.
 * The buffer is malloc'ed with exactly <capacity> bytes when built with ASan; otherwise it
 * sits between two 64-byte guard areas (0xFD) that are checked after every op.  The program
 * runs in a forked child (in this process when the line starts with "nofork "); the first fault
 * ends the line with one of
 *     FAULT:ASAN  FAULT:GUARD  FAULT:OOBREAD (returned region not inside the buffer)
 *     FAULT:SIG<n>  FAULT:EXIT<n>  FAULT:TIMEOUT */
#include "jls/msg_ring_buffer.h"
#include <fcntl.h>

#define MRB_GUARD 64
#define MRB_GUARD_BYTE 0xFD

/* stdio only: jlsrun is linked with --wrap=write/open/close for other kinds */
static int mrb_flush_each = 1;
static void mrb_emit(FILE * fd, const char * s) {
    if (fputs(s, fd) < 0 || (mrb_flush_each && fflush(fd))) _exit(4);
}

static void mrb_digest(char * o, const uint8_t * b, uint32_t n) {
    static const char hx[] = "0123456789abcdef";
    if (n <= 24) {
        for (uint32_t i = 0; i < n; ++i) { *o++ = hx[b[i] >> 4]; *o++ = hx[b[i] & 15]; }
        *o = 0;
        return;
    }
    uint32_t sum = 0;
    for (uint32_t i = 0; i < n; ++i) sum += b[i];
    for (uint32_t i = 0; i < 8; ++i) { *o++ = hx[b[i] >> 4]; *o++ = hx[b[i] & 15]; }
    *o++ = '.'; *o++ = '.';
    for (uint32_t i = n - 8; i < n; ++i) { *o++ = hx[b[i] >> 4]; *o++ = hx[b[i] & 15]; }
    sprintf(o, "+%u", sum);
}

static int mrb_child(const char * line, FILE * fd) {
    unsigned long cap = 0;
    const char * s = strstr(line, "cap=");
    if (!s) { mrb_emit(fd, "?"); return 0; }
    cap = strtoul(s + 4, (char **) &s, 10);
#if defined(__SANITIZE_ADDRESS__)
    uint8_t * raw = malloc(cap ? cap : 1);
    uint8_t * buf = raw;
    const int guarded = 0;
    (void) raw;
#else
    uint8_t * raw = malloc(cap + 2 * MRB_GUARD);
    uint8_t * buf = raw + MRB_GUARD;
    const int guarded = 1;
    memset(raw, MRB_GUARD_BYTE, cap + 2 * MRB_GUARD);
#endif
    struct jls_mrb_s m;
    jls_mrb_init(&m, buf, (uint32_t) cap);
    unsigned k = 0;
    char tok[256];
    while (*s) {
        while (*s == ' ') ++s;
        if (!*s) break;
        char opc = *s++;
        if (opc == 'a') {
            unsigned long n = strtoul(s + 1, (char **) &s, 10);
            uint8_t * p = jls_mrb_alloc(&m, (uint32_t) n);
            if (p) {
                /* a region for a message larger than the whole buffer is reported (the oracle rejects it) but not written */
                for (unsigned long i = 0; (i < n) && (n <= cap); ++i) p[i] = (uint8_t) ((31UL * k + 3UL * i + 1UL) % 251UL);
                sprintf(tok, "a=%ld", (long) (p - buf));
            } else {
                sprintf(tok, "a=NULL");
            }
            ++k;
        } else if (opc == 'k' || opc == 'p') {
            uint32_t sz = 0;
            uint8_t * p = (opc == 'k') ? jls_mrb_peek(&m, &sz) : jls_mrb_pop(&m, &sz);
            if (p) {
                long off = (long) (p - buf);
                if (off < 0 || (unsigned long) off + sz > cap) { return 5; }
                sprintf(tok, "%c=%ld:%u:", opc, off, sz);
                mrb_emit(fd, tok);
                char * dg = malloc(2 * (sz <= 24 ? sz : 16) + 32);
                mrb_digest(dg, p, sz);
                mrb_emit(fd, dg);
                free(dg);
                tok[0] = 0;
            } else {
                sprintf(tok, "%c=NULL", opc);
            }
        } else {
            mrb_emit(fd, "? ");
            while (*s && *s != ' ') ++s;
            continue;
        }
        if (guarded) {
            for (unsigned i = 0; i < MRB_GUARD; ++i) {
                if (raw[i] != MRB_GUARD_BYTE || raw[MRB_GUARD + cap + i] != MRB_GUARD_BYTE) return 3;
            }
        }
        sprintf(tok + strlen(tok), "@%u,%u,%u ", m.head, m.tail, m.count);
        mrb_emit(fd, tok);
    }
    free(raw);
    return 0;
}

KIND(mrb) {
    (void) argc; (void) argv;
    char * line;
    while ((line = read_line())) {
        if (0 == strncmp(line, "nofork ", 7)) {
            /* the caller expects no fault on this program: run it in this process (an ASan
             * report then ends the whole process and the caller re-runs the rest forked) */
            mrb_flush_each = 0;
            int rc = mrb_child(line, stdout);
            mrb_flush_each = 1;
            if (rc == 3) printf("FAULT:GUARD");
            else if (rc == 5) printf("FAULT:OOBREAD");
            else if (rc != 0) printf("FAULT:EXIT%d", rc);
            printf("\n");
            free(line);
            continue;
        }
        int pfd[2];
        if (pipe(pfd)) return 3;
        fflush(stdout);
        pid_t pid = fork();
        if (pid == 0) {
            fclose(fdopen(pfd[0], "r"));
            if (!freopen("/dev/null", "w", stderr)) _exit(4);
            alarm(20);
            _exit(mrb_child(line, fdopen(pfd[1], "w")));
        }
        fclose(fdopen(pfd[1], "w"));
        FILE * rd = fdopen(pfd[0], "r");
        static char rb[65536]; size_t n;
        while ((n = fread(rb, 1, sizeof(rb), rd)) > 0) fwrite(rb, 1, n, stdout);
        fclose(rd);
        int st = 0;
        waitpid(pid, &st, 0);
        if (WIFSIGNALED(st)) {
            if (WTERMSIG(st) == SIGALRM) printf("FAULT:TIMEOUT");
            else printf("FAULT:SIG%d", WTERMSIG(st));
        } else if (WEXITSTATUS(st) == 99 || WEXITSTATUS(st) == 1) printf("FAULT:ASAN");
        else if (WEXITSTATUS(st) == 3) printf("FAULT:GUARD");
        else if (WEXITSTATUS(st) == 5) printf("FAULT:OOBREAD");
        else if (WEXITSTATUS(st) != 0) printf("FAULT:EXIT%d", WEXITSTATUS(st));
        printf("\n");
        free(line);
    }
    return 0;
}
