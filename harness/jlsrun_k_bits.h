/* kind bits: jls_bit_copy of /repo/src/bit_shift.c called directly on exactly-sized
 * malloc'ed buffers (so that the ASan build turns any access outside them into a fault).
 *   c <dst_hex|-> <dst_bit> <src_hex|-> <src_bit> <bit_count>     (numbers decimal; - = empty buffer)
 *   n <same fields>      the same without the forked child (a fault ends the process; used for
 *                        cases that must not fault, because fork under ASan costs ~50 ms)
 *        -> the destination buffer after the call as hex (- when empty), or
 *           FAULT ASAN / FAULT SIG<n> / FAULT TIMEOUT / FAULT EXIT<n>
 *   consts
 *        -> fill_bytes=<sizeof buffer_u64> nan32=<hex of (float) NAN> nan64=<hex of (double) NAN>
 * Each case runs in a forked child with an alarm. */
#include "jls/bit_shift.h"
#include "jls/core.h"
#include <math.h>

/* exactly n bytes; an empty buffer is the one-past-the-end pointer of a 1-byte object, because
 * ASan does not report an access to the first byte of a malloc(0) object */
static uint8_t * bits_decode_exact(const char * s, size_t * len_out, uint8_t ** base) {
    size_t n = (s[0] == '-') ? 0 : strlen(s) / 2;
    uint8_t * b = malloc(n ? n : 1);
    *base = b;
    if (!n) b += 1;
    for (size_t i = 0; i < n; ++i) b[i] = (uint8_t) ((hexval(s[2 * i]) << 4) | hexval(s[2 * i + 1]));
    *len_out = n;
    return b;
}

static int bits_case(char * line) {
    char * tok[6]; int nt = 0;
    for (char * p = strtok(line, " "); p && nt < 6; p = strtok(NULL, " ")) tok[nt++] = p;
    if (nt != 6) { printf("?\n"); return 0; }
    size_t dn, sn;
    uint8_t * dbase, * sbase;
    uint8_t * dst = bits_decode_exact(tok[1], &dn, &dbase);
    uint8_t * src = bits_decode_exact(tok[3], &sn, &sbase);
    uint64_t dst_bit = strtoull(tok[2], NULL, 10);
    uint64_t src_bit = strtoull(tok[4], NULL, 10);
    uint64_t cnt = strtoull(tok[5], NULL, 10);
    jls_bit_copy(dst, dst_bit, src, src_bit, cnt);
    if (dn == 0) printf("-"); else hex_print(dst, dn);
    printf("\n");
    free(dbase); free(sbase);
    return 0;
}

KIND(bits) {
    (void) argc; (void) argv;
    char * line;
    while ((line = read_line())) {
        if (0 == strncmp(line, "consts", 6)) {
            float f = NAN; double d = NAN;
            printf("fill_bytes=%zu nan32=", sizeof(((struct jls_core_fsr_s *) 0)->buffer_u64));
            hex_print((const uint8_t *) &f, sizeof(f));
            printf(" nan64=");
            hex_print((const uint8_t *) &d, sizeof(d));
            printf("\n");
        } else if (line[0] == 'n') {
            alarm(5);                 /* a hang ends the process (SIGALRM): the caller re-runs the line forked */
            bits_case(line);
            alarm(0);
        } else if (line[0] == 'c') {
            fflush(stdout);
            pid_t pid = fork();
            if (pid == 0) {
                alarm(10);   /* generous: an ASan report under load takes time */
                int rc = bits_case(line);
                fflush(stdout);
                _exit(rc);
            }
            int status = 0;
            waitpid(pid, &status, 0);
            if (WIFSIGNALED(status)) {
                if (WTERMSIG(status) == SIGALRM) printf("FAULT TIMEOUT\n");
                else printf("FAULT SIG%d\n", WTERMSIG(status));
            } else if (WIFEXITED(status) && WEXITSTATUS(status) != 0) {
                if (WEXITSTATUS(status) == 99) printf("FAULT ASAN\n");
                else printf("FAULT EXIT%d\n", WEXITSTATUS(status));
            }
        } else {
            printf("?\n");
        }
        fflush(stdout);
        free(line);
    }
    return 0;
}
